"""Batch runner: seeded cases over a fork pool, determinism sampling,
violation handling (minimise, replay file), known findings, evidence."""
import concurrent.futures as cf
import faulthandler
import hashlib
import json
import multiprocessing as mp
import os
import subprocess
import sys
import time
import traceback

ROOT = os.path.dirname(os.path.abspath(__file__))
EVIDENCE_DIR = os.path.join(ROOT, "evidence")
REPLAY_DIR = os.path.join(ROOT, "replays")
KNOWN_FILE = os.path.join(ROOT, "known_findings.json")

REAL_VS_STUB = {
    "real": [
        "all of uberjob from /repo/src (engine, scheduler, transformations, pruning, retry, errors, "
        "traceback capture, progress observers, file stores)",
        "stdlib queue.Queue logic (over simulated primitives)",
        "contextlib, networkx, json, pickle",
        "the kernel file system for file-store worlds (scratch dir under /dev/shm)",
    ],
    "stub": [
        "threading.Lock/RLock/Condition/Event/Thread (simkit.prims, scheduler-controlled)",
        "time.time / Event.wait time-outs (virtual clock)",
        "user call functions and in-memory SimStore (workload; consult the fault plan)",
        "syscall-level fault layer under uberjob.stores.* (simkit.fs)",
        "IPython display() for the IPython observer",
    ],
}


def case_seed(base_seed, prop, idx):
    h = hashlib.sha256(repr((base_seed, prop, idx)).encode()).digest()
    return int.from_bytes(h[:6], "big")


def tree_state():
    try:
        head = subprocess.run(
            ["git", "-C", "/repo", "rev-parse", "HEAD"], capture_output=True, text=True, timeout=20
        ).stdout.strip()
        dirty = bool(
            subprocess.run(
                ["git", "-C", "/repo", "status", "--porcelain", "--untracked-files=no"],
                capture_output=True, text=True, timeout=20,
            ).stdout.strip()
        )
        return {"head": head, "dirty": dirty}
    except Exception as e:  # pragma: no cover
        return {"head": None, "error": repr(e)}


# --------------------------------------------------------------------------
# worker side
# --------------------------------------------------------------------------
_CHECK = None


def _load_check(modname):
    global _CHECK
    import importlib

    if _CHECK is None or _CHECK.__name__ != modname:
        _CHECK = importlib.import_module(modname)
    return _CHECK


def _run_chunk(modname, prop, tier, base_seed, indices, recheck_every):
    """Execute a chunk of cases in a worker process. Returns a list of
    per-case result dicts (small, picklable)."""
    faulthandler.enable()
    # (a chunk takes seconds; a worker that is stuck - e.g. code under test blocking on a real lock the simulator
    #  does not control - is dumped and killed, and the batch reports a HARNESS-ERROR)
    faulthandler.dump_traceback_later(240 if tier == "quick" else 600, exit=True)
    try:
        chk = _load_check(modname)
        out = []
        for idx in indices:
            seed = case_seed(base_seed, prop, idx)
            t0 = time.time()
            try:
                desc = chk.generate(prop, seed, tier)
                res = chk.execute(prop, desc)
                if recheck_every and idx % recheck_every == 0 and not res.get("violations"):
                    res2 = chk.execute(prop, desc)
                    if res2["digest"] != res["digest"]:
                        if res2.get("violations"):
                            # the same case behaves differently - and wrongly - when executed again in this
                            # process: state leaking inside the code under test (a cache, a global), a violation
                            for v in res2["violations"]:
                                v.setdefault("tags", {})["on_reexecution_in_process"] = True
                                v["msg"] = "[second execution of the same case in one process] " + v["msg"]
                            res2["pin"] = dict(res2.get("pin") or {}, repeat_in_process=2)
                            res = res2
                        else:
                            # state carried over inside the code under test (a cache, a memo) makes the first
                            # execution differ from the later ones without anything being wrong: only if the
                            # executions do not settle either (2nd != 3rd) is this nondeterminism
                            res3 = chk.execute(prop, desc)
                            if res3.get("violations"):
                                for v in res3["violations"]:
                                    v.setdefault("tags", {})["on_reexecution_in_process"] = True
                                    v["msg"] = "[third execution of the same case in one process] " + v["msg"]
                                res3["pin"] = dict(res3.get("pin") or {}, repeat_in_process=3)
                                res = res3
                            elif res3["digest"] == res2["digest"]:
                                res.setdefault("stats", {}).setdefault("probes", {})["first-execution-differs-then-settles"] = 1
                            else:
                                res["nondeterministic"] = (res["digest"], res2["digest"], res3["digest"])
            except Exception as e:
                res = {
                    "harness_error": "".join(traceback.format_exception(e))[-4000:],
                    "digest": None, "violations": [], "stats": {},
                }
                desc = None
            res["idx"] = idx
            res["seed"] = seed
            if desc is not None:
                res["features"] = scenario_features(desc)
            if idx < 3 and desc is not None:
                res["sample"] = _trim(desc)
            res["wall"] = time.time() - t0
            if res.get("violations") or res.get("harness_error") or res.get("nondeterministic"):
                if res.get("pin") and desc is not None:
                    desc = dict(desc, **res["pin"])  # e.g. the failing k of an enumeration
                res["desc"] = desc
            out.append(res)
        return out
    finally:
        faulthandler.cancel_dump_traceback_later()


_F_SKIP = {"seed", "id", "salt", "tapes", "tier", "depth", "add_depth", "dur", "deps", "args", "kwargs", "scope", "fname",
           "value", "index", "of", "items", "n", "add_order", "epoch", "tick", "errno", "name", "size", "offsets",
           "renders", "seconds", "intervals", "durs", "edges", "buffer_size", "max_steps", "store", "node"}
_F_VALUE = {"mode", "kind", "op", "progress", "k_mode", "fault_kind", "cls", "flavour", "transform", "scheduler",
            "prior", "path_type", "fault_exc", "cut_mode", "gran", "exc", "fail_kind", "max_errors", "max_workers",
            "stale_workers", "zone", "tz", "fresh_render", "at", "what", "when"}


def scenario_features(desc):
    """Which generator features a case description uses: every key path that carries a non-empty value, and
    `path=value` for the enumerated ones.  Aggregated into coverage.scenario_features (cases per feature), so that
    a scenario template that silently stopped being generated shows up as a feature that vanished
    (`./check selftest-reach`)."""
    out = set()

    def walk(d, pre, depth):
        if depth > 5 or not isinstance(d, dict):
            return
        for k, v in d.items():
            if k in _F_SKIP or v in (None, False, [], {}, 0, 0.0, "", ()):
                if k in _F_VALUE and k not in _F_SKIP and (v is None or v is False or v == 0) and not isinstance(v, float):
                    out.add(f"{pre}{k}={v!r}")
                continue
            if pre.endswith(("stores.", "calls.", "cfn.")) and isinstance(v, dict):
                walk(v, pre + "*.", depth + 1)     # keyed by store name / node id
            elif isinstance(v, dict):
                out.add(pre + k)
                walk(v, pre + k + ".", depth + 1)
            elif isinstance(v, list) and v and isinstance(v[0], dict):
                out.add(pre + k + "[]")
                for x in v[:300]:
                    walk(x, pre + k + "[].", depth + 1)
            elif k == "strategy" and isinstance(v, list):
                out.add(f"{pre}{k}={v[0]}" + ("+phase" if len(v) > 3 else ""))
            elif k in _F_VALUE and isinstance(v, (str, bool, int)):
                out.add(f"{pre}{k}={v!r}" if not (isinstance(v, int) and v >= 5) else f"{pre}{k}=5+")
            elif k in _F_VALUE and isinstance(v, list) and v and isinstance(v[0], str):
                out.add(f"{pre}{k}={v[0]}...")
            else:
                out.add(pre + k)

    walk(desc, "", 0)
    return sorted(out)


def _trim(desc, limit=5000):
    s = json.dumps(desc, default=repr)
    if len(s) <= limit:
        return json.loads(s)
    return {"truncated_description": s[:limit]}


def _exec_one(modname, prop, desc):
    """Execute a single description (used by replay and the minimiser)."""
    faulthandler.enable()
    faulthandler.dump_traceback_later(300, exit=True)
    try:
        chk = _load_check(modname)
        res = None
        for _ in range(int(desc.get("repeat_in_process", 1)) if isinstance(desc, dict) else 1):
            res = chk.execute(prop, desc)
        return res
    finally:
        faulthandler.cancel_dump_traceback_later()


class Pool:
    def __init__(self, jobs):
        self.jobs = jobs
        self.ex = cf.ProcessPoolExecutor(max_workers=jobs, mp_context=mp.get_context("fork"))

    def close(self):
        self.ex.shutdown(wait=False, cancel_futures=True)


def exec_isolated(modname, prop, desc, timeout=300):
    """Run one description in a fresh forked process."""
    ex = cf.ProcessPoolExecutor(max_workers=1, mp_context=mp.get_context("fork"))
    try:
        fut = ex.submit(_exec_one, modname, prop, desc)
        return fut.result(timeout=timeout)
    finally:
        ex.shutdown(wait=False, cancel_futures=True)


# --------------------------------------------------------------------------
# known findings
# --------------------------------------------------------------------------
def load_known():
    if not os.path.exists(KNOWN_FILE):
        return []
    with open(KNOWN_FILE) as f:
        data = json.load(f)
    return [e for e in data.get("findings", []) if e.get("status") == "known"]


def match_known(prop, violation, known):
    for e in known:
        if e["property"] != prop:
            continue
        if e.get("oracle") and e["oracle"] != violation["oracle"]:
            continue
        if e.get("oracles") and violation["oracle"] not in e["oracles"]:
            continue
        pred = e.get("match", {})
        tags = violation.get("tags", {})
        if all(tags.get(k) == v for k, v in pred.items()):
            return e
    return None


# --------------------------------------------------------------------------
# main batch loop
# --------------------------------------------------------------------------
def run_batch(modname, prop, tier, *, n_cases, budget_s, jobs, base_seed, chunk=8, recheck_every=50,
              meta=None):
    t_start = time.time()
    chk = _load_check(modname)
    known = load_known()
    pool = Pool(jobs)
    agg = {
        "evaluations": 0, "nontrivial_keys": set(), "interleavings": set(), "states": set(),
        "steps": 0, "switches": 0, "preemptions": 0, "vtime": 0.0, "decisions": 0,
        "fired": {}, "probes": {}, "strategies": {}, "grans": {}, "max_steps_run": 0,
        "samples": [], "rechecked": 0, "sub": 0, "features": {},
    }
    digests = {}
    violations = []
    known_hits = {}
    harness_errors = []
    nondet = []   # a re-executed case gave another event log (without any oracle failing): reported at the end
    next_idx = 0
    pending = set()
    stop = False
    try:
        while True:
            while (not stop and len(pending) < jobs * 2 and next_idx < n_cases
                   and time.time() - t_start < budget_s):
                idxs = list(range(next_idx, min(n_cases, next_idx + chunk)))
                next_idx += len(idxs)
                pending.add(pool.ex.submit(_run_chunk, modname, prop, tier, base_seed, idxs, recheck_every))
            if not pending:
                break
            done, pending = cf.wait(pending, timeout=30, return_when=cf.FIRST_COMPLETED)
            if not done and time.time() - t_start > budget_s + 900:
                harness_errors.append("batch wall timeout: workers did not return")
                break
            for fut in done:
                try:
                    results = fut.result()
                except Exception as e:
                    harness_errors.append(f"worker died: {e!r}")
                    stop = True
                    continue
                for res in results:
                    _aggregate(agg, res)
                    digests[str(res["idx"])] = res.get("digest")
                    if res.get("harness_error"):
                        harness_errors.append(f"case idx={res['idx']} seed={res['seed']}: {res['harness_error']}")
                    if res.get("nondeterministic"):
                        nondet.append(
                            f"nondeterminism: idx={res['idx']} seed={res['seed']} digests {res['nondeterministic']}"
                        )
                    for v in res.get("violations", ()):
                        k = match_known(prop, v, known)
                        if k is not None:
                            known_hits.setdefault(k["id"], [k, 0])[1] += 1
                        else:
                            violations.append((res["idx"], res["seed"], res.get("desc"), v))
                            stop = True
                if harness_errors:
                    stop = True
    finally:
        pool.close()
    wall = time.time() - t_start
    if nondet and not violations:
        harness_errors.extend(nondet[:5])
    return dict(agg=agg, violations=violations, known_hits=known_hits, harness_errors=harness_errors,
                wall=wall, n_requested=n_cases, digests=digests)


def _aggregate(agg, res):
    st = res.get("stats") or {}
    agg["evaluations"] += st.get("runs", 1)
    agg["sub"] += st.get("sub", 0)
    for k in ("steps", "switches", "preemptions", "decisions"):
        agg[k] += st.get(k, 0)
    agg["vtime"] += st.get("vtime", 0.0)
    agg["max_steps_run"] = max(agg["max_steps_run"], st.get("max_steps_run", 0))
    for k, v in (st.get("fired") or {}).items():
        agg["fired"][k] = agg["fired"].get(k, 0) + v
    for k, v in (st.get("probes") or {}).items():
        agg["probes"][k] = agg["probes"].get(k, 0) + v
    for k in st.get("strategies", ()):
        agg["strategies"][k] = agg["strategies"].get(k, 0) + 1
    for k in st.get("grans", ()):
        agg["grans"][k] = agg["grans"].get(k, 0) + 1
    for k in res.get("features", ()):
        agg["features"][k] = agg["features"].get(k, 0) + 1
    for key in st.get("nontrivial_keys", ()):
        agg["nontrivial_keys"].add(key)
    for key in st.get("interleavings", ()):
        agg["interleavings"].add(key)
    for key in st.get("states", ()):
        agg["states"].add(key)
    if res.get("sample") is not None and len(agg["samples"]) < 3:
        agg["samples"].append(res["sample"])
    if res.get("nondeterministic") is None and st.get("rechecked"):
        agg["rechecked"] += 1


def write_evidence(prop, tier, base_seed, level, out, meta, n_violations):
    agg = out["agg"]
    wall = out["wall"]
    ev = max(1, agg["evaluations"])
    coverage = {
        "evaluations": agg["evaluations"],
        "distinct_nontrivial": len(agg["nontrivial_keys"]),
        "rule": meta["rule"],
        "samples": agg["samples"] or [{"note": "no sample recorded"}],
        "cases_requested": out["n_requested"],
        "sub_evaluations": agg["sub"],
        "runs_per_hour": round(agg["evaluations"] / max(wall, 1e-6) * 3600),
        "seeds_per_hour": round(agg["evaluations"] / max(wall, 1e-6) * 3600),
        "simulated_seconds": round(agg["vtime"], 3),
        "scheduling_points": agg["steps"],
        "scheduling_decisions_non_default": agg["decisions"],
        "context_switches": agg["switches"],
        "preemptive_switches": agg["preemptions"],
        "distinct_interleavings": len(agg["interleavings"]),
        "distinct_abstract_states": len(agg["states"]),
        "fault_kinds_fired": dict(sorted(agg["fired"].items())),
        "probes": dict(sorted(agg["probes"].items())),
        "scenario_features": dict(sorted(agg["features"].items())),
        "strategies": dict(sorted(agg["strategies"].items())),
        "granularities": dict(sorted(agg["grans"].items())),
        "max_steps_in_one_run": agg["max_steps_run"],
        "step_cap": meta.get("step_cap", 400000),
        "determinism_rechecks": agg["rechecked"],
        "known_findings_hit": {k: v[1] for k, v in out["known_hits"].items()},
        "real_vs_stub": REAL_VS_STUB,
        "exhaustive": False,
    }
    coverage.update(meta.get("coverage_extra", {}))
    doc = {
        "property_id": prop,
        "tier": tier,
        "seed": base_seed,
        "level": level,
        "coverage": coverage,
        "assumptions": meta.get("assumptions", []),
        "wall_s": round(wall, 2),
        "violations": n_violations,
        "tree": tree_state(),
        "technique": "deterministic simulation with fault injection (seeded schedule/fault search)",
    }
    os.makedirs(EVIDENCE_DIR, exist_ok=True)
    # ad-hoc invocations (--cases N, UBERJOB_SRC=...) never overwrite the evidence of the registered command
    adhoc = os.environ.get("VERIF_ADHOC") == "1" or os.environ.get("UBERJOB_SRC", "/repo/src") != "/repo/src"
    path = os.path.join(EVIDENCE_DIR, f"{prop}.dev.json" if adhoc else f"{prop}.json")
    tmp = path + f".{os.getpid()}.tmp"     # (two checks of one property may run at the same time, e.g. tools/benign.py)
    with open(tmp, "w") as f:
        json.dump(doc, f, indent=1, default=_json_default)
    os.replace(tmp, path)
    return path


def _json_default(o):
    if isinstance(o, (set, frozenset)):
        return sorted(o, key=repr)
    return repr(o)


def write_replay(prop, seed, idx, desc, violation, digest, minimised):
    os.makedirs(REPLAY_DIR, exist_ok=True)
    path = os.path.join(REPLAY_DIR, f"{prop}-{seed}.json")
    doc = {
        "property": prop,
        "oracle": violation["oracle"],
        "message": violation["msg"],
        "tags": violation.get("tags", {}),
        "seed": seed,
        "case_index": idx,
        "desc": desc,
        "digest": digest,
        "minimised": minimised,
        "tree": tree_state(),
    }
    with open(path, "w") as f:
        json.dump(doc, f, indent=1, default=_json_default)
    return path

"""C08: every cut position k of each sampled (world, prior history, schedule),
as an exception in that operation and as process death."""
import copy
import hashlib

from checks import oracles as O
from checks import oracles_reg as R
from checks.common import result, stats_from_history
from checks.history import gen_chain_history, gen_fanin_history, gen_history
from model import machine, ref
from model.core import canon, typed_equal

K_CAP = {"quick": 30, "thorough": 120}


def generate(prop, seed, tier):
    desc, rng = gen_history(seed, tier, n_ops=(0, 4), allow=("run", "fail", "update", "delete", "fresh", "bump", "bump"),
                            final_run=True, genkw=dict(durs=(0.0, 0.0, 1.0, 2.0)))
    if seed % 2 == 1:
        # the repairing run decides what is out of date on several stale-check workers at once: stress that phase
        # (a fan-in shape whose inputs were touched, cut anywhere, then a follow-up under adversarial schedules)
        if seed % 4 == 1:
            desc, rng = gen_fanin_history(seed, rng)
        desc["follow"] = dict(stale_workers=rng.choice([2, 3, 4]), max_workers=rng.choice([2, 3]),
                              sched=dict(strategy=rng.choice([["rw", 0.05, 0.5], ["rw", 0.1, 0.5], ["rw", 0.2, 0.5],
                                                              ["rw", 0.3, 0.5], ["pct", 30, 1500], ["pct", 10, 600, 1]]),
                                         gran="opcode+", salt=desc["sched"]["salt"]))
    if seed % 16 == 7:
        desc = sibling_files_desc(seed, rng)
    elif seed % 4 == 2:
        desc, rng = gen_chain_history(seed, rng)
    desc["tier"] = tier
    last = desc["ops"][-1]
    last["cfg"]["max_errors"] = rng.choice([0, 0, 2, None])
    last["cfg"]["max_workers"] = rng.choice([1, 2, 3, 4])
    if rng.random() < 0.3 and not desc.get("file_stores"):
        # file-backed world: non-source stores are real PickleFileStore files; cut positions then include every
        # file operation (open / raw write / close / replace, before and after) of every store write
        # (a store whose write also feeds a linked source store is kept in memory: its two effects are atomic there)
        names = ref.file_backable(desc["world"], kinds=("call", "lit", "gather"))
        for nm in names:
            desc["world"]["stores"][nm]["flavour"] = "plain"
        if names:
            file_backed(desc, names, rng)
            last["cfg"]["buffer_size"] = rng.choice([8192, 64, 16])
    return desc


def sibling_files_desc(seed, rng):
    """Several independent stored calls whose value stores are files with pathlib paths sharing stems (x.dat / x.pkl),
    written at the same time by several workers; a consumer of all of them."""
    from model import worldgen

    nodes = [dict(id=0, kind="src", store="s0", deps=[], scope=[], depth=0)]
    stores = {"s0": dict(flavour="plain", cls="A")}
    k = rng.choice([2, 2, 3, 4])
    for i in range(1, k + 1):
        stores[f"s{i}"] = dict(flavour="plain", cls="A")
        nodes.append(dict(id=i, kind="call", args=[["n", 0]], kwargs=[], deps=[], scope=[], dur=0.0, ret="val",
                          fname=rng.choice(["f", "g"]), depth=0, store=f"s{i}", add_depth=0))
    nodes.append(dict(id=k + 1, kind="call", args=[["n", i] for i in range(1, k + 1)], kwargs=[], deps=[], scope=[],
                      dur=0.0, ret="val", fname="h", depth=0))
    world = dict(nodes=nodes, stores=stores, late_deps=[], output=["n", k + 1])
    cfg = dict(max_workers=rng.choice([2, 3, 4]), scheduler=rng.choice([None, "default", "random"]), max_errors=0, retry=None,
               stale_workers=None, output=True, use_fresh=True)
    ops = [dict(op="run", cfg=dict(cfg)), dict(op="update", store="s0")] if rng.random() < 0.5 else []
    ops.append(dict(op="run", cfg=dict(cfg), final=True))
    desc = dict(seed=seed, world=world, ops=ops, tick=rng.choice([1.0, 0.001]),
                sched=dict(strategy=rng.choice([["rw", 0.0, 0.3], ["rw", 0.0, 0.6], ["pct", 3, 200], ["pct", 6, 300]]),
                           gran="sync", salt=rng.randrange(1 << 30)))
    desc["file_stores"] = [f"s{i}" for i in range(1, k + 1)]
    desc["touch_stores"] = []
    desc["file_siblings"] = True
    return desc


def file_backed(desc, names, rng):
    """Make the given (non-source, non-feeding) stores real files of bundled stores: pickle files, touch files for
    calls that return None, optionally pathlib paths in which pairs of stores share a stem."""
    desc["file_stores"] = names
    byid = {n["id"]: n for n in desc["world"]["nodes"]}
    touch = []
    for n in desc["world"]["nodes"]:
        if n["kind"] == "call" and n.get("store") in names and rng.random() < 0.3:
            n["ret"] = ["const", None]       # a side-effect step: its value store is a touch file
            touch.append(n["store"])
    desc["touch_stores"] = touch
    desc["file_siblings"] = rng.random() < 0.4
    # store paths that are symbolic links (outputs kept on another disk): dangling until the first write
    desc["file_symlinks"] = [nm for nm in sorted(names) if rng.random() < 0.25]
    desc["file_symlink_loops"] = [nm for nm in desc["file_symlinks"] if rng.random() < 0.3]


def _prefix(desc):
    hist = machine.History(desc)
    hist.init_sources()
    for idx, op in enumerate(desc["ops"][:-1]):
        machine.apply_op(hist, op, idx)
    return hist


def _state(hist):
    return (hist.disk.snapshot(), hist.fresh, dict(hist.src_version))


def _restore(hist, st):
    hist.disk.restore(st[0])
    hist.fresh = st[1]
    hist.src_version = dict(st[2])
    hist.disk.frozen = False


def execute(prop, desc):
    hist = None
    try:
        hist = _prefix(desc)
        return _execute(prop, desc, hist)
    finally:
        if hist is not None:
            hist.cleanup()


def _execute(prop, desc, hist):
    world = hist.world
    st0 = _state(hist)
    idx = len(desc["ops"]) - 1
    op = desc["ops"][-1]
    tapes = desc.get("tapes") or {}
    viol = []
    pin = None
    only = desc.get("only_cut")
    n_sub = 0
    if only is None:
        rec0 = machine.apply_op(hist, copy.deepcopy(op), idx)
        positions = list(rec0.rt.positions)
        # every call start, store read and store write position (before / after its effect), every file operation;
        # of the modified-time queries - nothing has been written yet when the stale check is cut, all of them lead
        # to the same follow-up - only the first, the middle and the last one; capped (evenly spread) per case
        mt = [k for k in range(1, len(positions) + 1) if positions[k - 1][0] == "mtime"]
        keep_mt = {mt[0], mt[len(mt) // 2], mt[-1]} if mt else set()
        ks = [k for k in range(1, len(positions) + 1) if positions[k - 1][0] != "mtime" or k in keep_mt]
        cap = K_CAP[desc.get("tier", "quick")]
        if len(ks) > cap:
            ks = sorted({ks[(i * (len(ks) - 1)) // (cap - 1)] for i in range(cap)})
        todo = [(k, m) for k in ks for m in ("exc", "death")]
        viol.extend(O.o_term(rec0, world, hist))
    else:
        todo = [tuple(only)]
    kinds = {}
    if not viol:
        for k, mode in todo:
            _restore(hist, st0)
            cop = copy.deepcopy(op)
            cop["faults"] = dict(cop.get("faults") or {}, cut_at=k, cut_mode=mode)
            rec = machine.apply_op(hist, cop, idx, tape=tapes.get(str(idx)))
            n_sub += 1
            if rec.rt.positions and len(rec.rt.positions) >= k:
                kd = rec.rt.positions[k - 1][0] + ":" + mode
                kinds[kd] = kinds.get(kd, 0) + 1
            v = o_after_cut(rec, world, hist)
            if not v:
                follow = dict(op="run", cfg=dict(op["cfg"], output=True, max_errors=0, retry=None))
                if desc.get("follow"):
                    follow["cfg"].update(stale_workers=desc["follow"]["stale_workers"], max_workers=desc["follow"]["max_workers"])
                    follow["sched"] = desc["follow"]["sched"]
                written_in_cut = _complete_writes(rec)
                # (its own schedule for every cut position: the operation index seeds the simulator)
                rec2 = machine.apply_op(hist, follow, idx + 1 + 2 * k + (mode == "death"))
                v = o_followup(rec, rec2, world, hist, written_in_cut)
            if v:
                for x in v:
                    x["tags"].update(k=k, mode=mode)
                viol.extend(v)
                pin = {"only_cut": [k, mode]}
                break
    st = stats_from_history(desc, hist, extra_fired=kinds)
    st["sub"] = n_sub
    res = dict(digest=hist.h.hexdigest(), violations=viol, stats=st)
    if viol:
        res["pin"] = pin
        cutrecs = [r for r in hist.records if r.idx == idx]
        res["tapes"] = {str(idx): cutrecs[-1].sim.tape} if cutrecs else None
    return res


def _complete_writes(rec):
    """Stores whose write took effect during the (cut) run."""
    out = set()
    for ev in rec.events:
        if ev[3] == "store-effect":
            out.add(ev[5])
    return out


def _expected(world, rec, hist):
    try:
        return ref.evaluate(world, rec.built.objs, sources=hist.source_values())
    except ref.Missing:
        return None


def o_after_cut(rec, world, hist):
    """(i) every stored value that a later run would treat as up to date
    equals its from-scratch value."""
    out = []
    if rec.sim.hung is not None and rec.sim.abort_reason != "death":
        out.append(O.V("hang", f"cut run hung: {rec.sim.hung['why']}"))
        return out
    exp = _expected(world, rec, hist)
    if exp is None:
        return out
    seen, stores = exp
    S, dontcare = ref.out_of_date(world, hist.disk.mtimes(), fresh=hist.fresh)
    pure = R.pure_sources(world)
    for n in world["nodes"]:
        name = n.get("store")
        if not name or name in pure or n["id"] in S or n["id"] in dontcare:
            continue
        if hist.disk.mtime(name) is None:
            continue
        try:
            got = hist.disk.value(name)
        except Exception as e:
            out.append(O.V("uptodate-but-unreadable", f"after the cut, store {name} (node {n['id']}) looks up to date but "
                                                      f"cannot be read back: {e!r}"))
            return out
        if canon(got) != canon(stores[name]):
            out.append(O.V("uptodate-but-wrong", f"after the cut, store {name} (node {n['id']}) looks up to date but holds "
                                                 f"{canon(got)[:160]}; from scratch: {canon(stores[name])[:160]}"))
            return out
    return out


def o_followup(rec_cut, rec2, world, hist, written_in_cut):
    out = []
    t = O.o_term(rec2, world, hist)
    if t:
        return t
    if rec2.exc is not None:
        out.append(O.V("followup-failed", f"the run after the cut failed: {rec2.exc!r} / {rec2.exc.__cause__!r}"))
        return out
    out = R.o_fromscratch(rec2, world, hist)
    if out:
        return out
    # (iii) stores completely written before the cut are not rebuilt again
    ix2 = O.index(rec2)
    owner = R.store_owner(world)
    S_after, dontcare = ref.out_of_date(world, rec2.mtimes_before, fresh=rec2.fresh_instant)
    rewritten = set()
    for ev in rec2.events:
        if ev[3] == "store-effect":
            rewritten.add(ev[5])
    for name in sorted(written_in_cut & rewritten):
        n = owner[name]
        if n in dontcare:
            continue
        if _upstream_changed_after(rec_cut, world, n, name):
            continue
        out.append(O.V("rewritten-after-cut", f"store {name} was completely written by the cut run and rewritten by the "
                                              f"next run although nothing upstream changed"))
        return out
    return out


def _upstream_changed_after(rec_cut, world, n, name):
    """Did a side-effect writer upstream of n rewrite its source after n's
    store was written in the cut run (a legitimate reason to rebuild)?"""
    ds = ref.deps_star(world)
    nodes = ref.by_id(world)
    weff = None
    for ev in rec_cut.events:
        if ev[3] == "store-effect" and ev[5] == name:
            weff = ev[0]
    for ev in rec_cut.events:
        if ev[3] == "side-write" and weff is not None and ev[0] > weff:
            src = [m["id"] for m in world["nodes"] if m.get("store") == ev[4] and m["kind"] == "src"]
            if any(s in ds[n] for s in src):
                return True
    return False

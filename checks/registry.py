"""Table of registered checks, conclusion logic (verdict, evidence, replay)."""
import json
import os
import sys

import runner
import shrink

ASSUME_SIM = [
    "simulated threading primitives (simkit.prims) faithfully model Lock/Condition/Event/Thread as uberjob uses them",
    "opcode/line-level pre-emption is a superset of CPython's real switch points",
    "workload call functions are deterministic; in-memory stores return what was last written",
]

CHECKS = {}


def reg(prop, module, cases, budget, level, rule, assumptions=None, **kw):
    CHECKS[prop] = dict(module=module, cases=cases, budget=budget, level=level, rule=rule,
                        assumptions=(assumptions or []) + ASSUME_SIM, **kw)


ENGINE_RULE = (
    "one case = one generated world (call graph, edge kinds, scopes, durations) + run configuration + fault plan + "
    "schedule strategy, executed under the baton-passing simulator; non-trivial = at least two calls/store "
    "operations were in flight at once or at least one pre-emptive context switch happened; distinct = distinct "
    "(world digest, interleaving digest) pairs, the interleaving digest being a hash of the (thread, event) sequence"
)

reg("C01", "checks.engine", dict(quick=2600, thorough=60000), dict(quick=55, thorough=900), "exploration", ENGINE_RULE)
reg("C02", "checks.engine", dict(quick=2600, thorough=60000), dict(quick=55, thorough=900), "exploration", ENGINE_RULE)
reg("C04", "checks.engine", dict(quick=2600, thorough=60000), dict(quick=55, thorough=900), "exploration", ENGINE_RULE)


def conclude(prop, spec, tier, base_seed, out, shrink=True):
    meta = dict(rule=spec["rule"], assumptions=spec["assumptions"], coverage_extra=spec.get("coverage_extra", {}))
    # one line per listed (status = known) finding of this property, whether or not this batch happened to hit it
    hits = {k: n for k, (entry, n) in out["known_hits"].items()}
    for entry in runner.load_known():
        if entry["property"] == prop:
            print(f"KNOWN-FINDING: property={prop} {entry['what']} (id={entry['id']}, seen {hits.get(entry['id'], 0)}x in this run)")
    if out["harness_errors"] and not out["violations"]:
        for h in out["harness_errors"][:5]:
            print("HARNESS-ERROR", h)
        runner.write_evidence(prop, tier, base_seed, spec["level"], out, meta, len(out["violations"]))
        return 2
    if out["violations"]:
        for h in out["harness_errors"][:3]:
            print("(also) HARNESS-ERROR", h)
        out["violations"].sort(key=lambda t: t[0])
        idx, seed, desc, v = out["violations"][0]
        print(f"violation found: case idx={idx} seed={seed} oracle={v['oracle']}: {v['msg'][:600]}")
        mini, info = desc, {"reproduced": None}
        digest = None
        if shrink and desc is not None:
            try:
                mini, res, info = _minimise(spec, prop, desc, v)
                if res is not None:
                    digest = res.get("digest")
                    vv = [x for x in res["violations"] if x["oracle"] == v["oracle"]]
                    if vv:
                        v = vv[0]
            except Exception as e:  # never let the minimiser hide a violation
                info = {"error": repr(e)}
                mini = desc
        path = runner.write_replay(prop, seed, idx, mini, v, digest, info)
        runner.write_evidence(prop, tier, base_seed, spec["level"], out, meta, len(out["violations"]))
        print(f"VIOLATION property={prop} replay={path}")
        return 1
    agg = out["agg"]
    if agg["evaluations"] == 0:
        print("HARNESS-ERROR no case was executed")
        return 2
    path = runner.write_evidence(prop, tier, base_seed, spec["level"], out, meta, 0)
    print(f"OK property={prop} tier={tier} cases={agg['evaluations']} distinct_nontrivial={len(agg['nontrivial_keys'])} "
          f"steps={agg['steps']} wall={out['wall']:.1f}s evidence={path}")
    return 0


def _minimise(spec, prop, desc, v):
    return shrink.minimise(spec["module"], prop, desc, v, budget_s=float(os.environ.get("VERIF_SHRINK_S", "90")))


def replay(prop, spec, path):
    with open(path) as f:
        doc = json.load(f)
    res = runner.exec_isolated(spec["module"], prop, doc["desc"])
    same = [v for v in res["violations"] if v["oracle"] == doc["oracle"]]
    if same:
        ok_digest = doc.get("digest") in (None, res["digest"])
        print(f"replayed: oracle={doc['oracle']} reproduced; digest {'matches' if ok_digest else 'DIFFERS'}")
        print(f"  {same[0]['msg'][:800]}")
        print(f"VIOLATION property={prop} replay={path}")
        return 1
    print(f"replay did not reproduce oracle={doc['oracle']} (violations now: {[v['oracle'] for v in res['violations']]})")
    return 0 if not res["violations"] else 1

for _p in ("C06", "C07", "C10", "C13", "C15"):
    reg(_p, "checks.engine", dict(quick=2600, thorough=60000), dict(quick=55, thorough=900), "exploration", ENGINE_RULE)

DEFAULT_NOTE = (
    "trusted base: simkit's simulated threading primitives and virtual clock, the workload generator and the "
    "reference model in /verif/model; sampling, not proof: a clean batch is evidence only"
)
LEVEL_TEXT = {
    "default": "seeded exploration of schedules, fault plans and generated plans under a deterministic simulator; "
               "every case is replayable from its description; finds violations with probability growing in the "
               "number of cases, proves nothing",
}

HISTORY_RULE = (
    "one case = one generated registry world (sources, stored and unstored calls, dependent sources, plain and "
    "normalising stores) + a history of 2-7 operations (runs, failing / cut / interrupted runs, source updates, "
    "deletions, fresh_time advances), each run executed under the simulator; invariants are evaluated after every "
    "operation; non-trivial = a run had >= 2 operations in flight at once or >= 1 pre-emptive switch; distinct = "
    "distinct (world digest, interleaving digest) pairs"
)
for _p in ("C03", "C05", "C09"):
    reg(_p, "checks.history", dict(quick=2000, thorough=40000), dict(quick=55, thorough=900), "exploration", HISTORY_RULE)

reg("C17", "checks.interrupt", dict(quick=500, thorough=12000), dict(quick=55, thorough=900), "fault_enumeration",
    "one case = one generated world + configuration + schedule seed; the run is first executed uninterrupted to learn "
    "its K call starts, then re-executed once for EVERY k <= K (capped at 14 quick / 40 thorough) with "
    "KeyboardInterrupt made pending in the caller when the k-th call starts and delivered at the caller's next "
    "simulated operation (Thread.start, Lock.acquire, Condition.wait, Thread.join) or by waking its interruptible "
    "wait; registry worlds are followed by a repair run; evaluations = simulated runs; non-trivial = >= 2 operations "
    "in flight or >= 1 pre-emptive switch; distinct = distinct (world, interleaving digest)",
    chunk=4, recheck_every=25)

reg("C08", "checks.cuts", dict(quick=600, thorough=9000), dict(quick=44, thorough=900), "fault_enumeration",
    "one case = one generated registry world + prior history (0-3 operations) + run configuration + schedule seed; "
    "the run is executed uncut to learn its N cut positions (call start, store read, write before / after its effect, "
    "modified-time query - of the modified-time queries, which all precede any write, the first, middle and last), then re-executed for EVERY such k <= N (cap 30 quick / 120 thorough, evenly spread when there are more) both with an exception "
    "raised in the k-th operation and with process death at it (stores frozen at that instant), each followed by a "
    "fresh-process repair run; evaluations = simulated runs; non-trivial = >= 2 operations in flight or >= 1 "
    "pre-emptive switch; distinct = distinct (world, interleaving digest)",
    chunk=1, recheck_every=10)

reg("C14", "checks.history", dict(quick=1500, thorough=30000), dict(quick=55, thorough=900), "exploration",
    HISTORY_RULE + "; the last operation is executed three times from the same store snapshot: as a dry run, as the "
    "real run, and as an execution of the physical plan the dry run returned (no registry), all under the simulator")

reg("C16", "checks.engine", dict(quick=2600, thorough=60000), dict(quick=55, thorough=900), "exploration", ENGINE_RULE
    + "; weak references to every call result are checked at every call start and every 'completed' notification")

reg("C11", "checks.files", dict(quick=1500, thorough=40000), dict(quick=55, thorough=900), "fault_enumeration",
    "one case = (store class or helper, str/pathlib path, prior state absent / old value with stamped mtime / old value "
    "+ leftover .STAGING, value incl. values that fail to serialise part-way, buffer size); the write is executed "
    "unfaulted to count its M raw file operations (open, each raw write, close, replace), then re-executed for EVERY "
    "k <= M x every applicable fault kind (OSError, short write then OSError, os._exit before / after the syscall in a "
    "forked child) on a real scratch directory; evaluations = writes executed; non-trivial = the write performs >= 3 "
    "file operations; distinct = distinct (kind, prior, path type, size, buffer size, bad) tuples",
    assumptions=["process death loses user-space buffers but keeps every completed syscall (no power-loss model: "
                 "staged_write does not fsync and the property does not promise it)",
                 "one fault per write (a second fault during clean-up is not injected)"],
    technique="fault enumeration at every file-operation index under a syscall-level fault-injection layer (simkit.fs)",
    chunk=8, recheck_every=0)

reg("C18", "checks.tz", dict(quick=1200, thorough=25000), dict(quick=55, thorough=900), "exploration",
    HISTORY_RULE + "; the epoch of the virtual clock is placed near a DST transition of a sampled zone (mostly "
    "fall-back), modified times are instants on that clock, and the last run is repeated from the same store snapshot "
    "under 4-6 variants of (process TZ via tzset, rendering of every store's modified time as naive-local / aware UTC / "
    "aware fixed offset / aware zone / real file mtime reported by uberjob.stores.get_modified_time, rendering of "
    "fresh_time); every variant must rebuild exactly the set computed on the instants",
    assumptions=["zoneinfo database of the sandbox"], chunk=4, recheck_every=5)

reg("C19", "checks.attribution", dict(quick=2600, thorough=60000), dict(quick=55, thorough=900), "exploration",
    ENGINE_RULE + "; every symbolic call / registry entry is created through helper functions nested -1..6 deep "
    "(35% of the cases build the plan in a bare thread so that the whole stack is shorter than the limit) and the "
    "expected frames are recorded with sys._getframe at the creation line; one fault kind per case (call, store "
    "read / write / read-back, modified-time query, failing unpack, failing inserted gather)")

reg("C20", "checks.display", dict(quick=2600, thorough=60000), dict(quick=55, thorough=900), "exploration",
    "one case = one bundled observer class (console / HTML / IPython widgets, instrumented only through the documented "
    "_render/_output extension points) with its real update thread on the virtual clock, driven either by a real "
    "simulated uberjob.run over a generated world or by a generated legal notification sequence (totals, then "
    "running/completed/failed from 1-4 notifier threads with virtual work durations, stale phase before run phase) "
    "over scope tuples of ints, strs, None, floats, bools, tuples, frozensets, enum members and unorderable tokens; "
    "render intervals, schedule strategy and granularity vary per case; non-trivial = >= 2 renderings or >= 1 "
    "pre-emptive switch; distinct = distinct (case digest, interleaving digest)",
    assumptions=["IPython.display.display is stubbed; ipywidgets run without a kernel (dummy comm)"],
    chunk=8)


CASES = {
    "C01": (50000, 900000), "C02": (50000, 900000), "C04": (50000, 900000), "C06": (45000, 800000),
    "C07": (50000, 900000), "C10": (45000, 800000), "C13": (25000, 450000), "C15": (40000, 700000),
    "C16": (50000, 900000), "C19": (30000, 500000), "C20": (12000, 200000), "C03": (10000, 180000),
    "C05": (9000, 160000), "C09": (10000, 180000), "C14": (9000, 160000), "C08": (600, 10000),
    "C17": (9000, 160000), "C11": (5500, 100000), "C18": (5000, 90000),
}
for _p, (_q, _t) in CASES.items():
    CHECKS[_p]["cases"] = dict(quick=_q, thorough=_t)
    CHECKS[_p]["budget"] = dict(quick=50, thorough=1500)

"""Oracles for registry worlds / histories (C03 C05 C08 C09 C14 C18)."""
from checks.oracles import V, index
from model import ref
from model.core import canon, typed_equal


def pure_sources(world):
    written_by = ref.derived_stores(world)
    return {n["store"] for n in world["nodes"] if n["kind"] == "src" and n["store"] not in written_by}


def store_owner(world):
    """store name -> the node that writes it (a store may also be read through further source entries)."""
    out = {}
    for n in world["nodes"]:
        if n.get("store") and (n["store"] not in out or n["kind"] != "src"):
            out[n["store"]] = n["id"]
    return out


def faulty(op):
    f = op.get("faults") or {}
    return bool(f.get("calls") or f.get("stores") or f.get("cut_at") or f.get("interrupt_at") or f.get("interrupt_at_op"))


# --------------------------------------------------------------------------
# C03
# --------------------------------------------------------------------------
def o_fromscratch(rec, world, hist):
    out = []
    if rec.exc is not None or rec.aborted or rec.op.get("cfg", {}).get("dry_run"):
        return out
    try:
        seen, stores = ref.evaluate(world, rec.built.objs, sources=rec.extra["sources_at_start"])
    except ref.Missing:
        return out
    wants = rec.op.get("cfg", {}).get("output", True) and world.get("output") is not None
    exp = ref.eval_output(world, seen, rec.built.objs) if wants else None
    # (by value and exact types: parts of the output may have been read from stores that an earlier process lifetime
    #  wrote, so opaque argument objects inside it are compared by their label)
    if canon(rec.result) != canon(exp):
        out.append(V("incremental-output", f"incremental run returned {canon(rec.result)[:300]}; from scratch: {canon(exp)[:300]}"))
        return out
    pure = pure_sources(world)
    owned = store_owner(world)
    for name in sorted(world["stores"]):
        if name in pure or name not in owned:   # (a minimised world may keep the description of a store nobody owns)
            continue
        if hist.disk.mtime(name) is None:
            out.append(V("store-missing-after-run", f"store {name} holds nothing after a successful run"))
            return out
        got = hist.disk.value(name)
        # (by value and exact types: what a store holds may have been written by an earlier process lifetime, so
        #  opaque argument objects inside it are compared by their label, not by identity)
        if canon(got) != canon(stores[name]):
            out.append(V("incremental-store", f"store {name} holds {canon(got)[:200]} after a successful run; "
                                              f"from scratch: {canon(stores[name])[:200]}"))
            return out
    return out


# --------------------------------------------------------------------------
# C05
# --------------------------------------------------------------------------
def stale_and_needed(rec, world):
    cfg = rec.op.get("cfg", {})
    S, dontcare = ref.out_of_date(world, rec.mtimes_before, fresh=rec.fresh_instant)
    wants = cfg.get("output", True) and world.get("output") is not None
    computed, reads, writes = ref.needed(world, S, want_output=wants)
    return S, dontcare, computed, reads, writes


def o_exact(rec, world, hist):
    out = []
    if rec.exc is not None or rec.aborted or faulty(rec.op) or rec.op.get("cfg", {}).get("dry_run"):
        return out
    ix = index(rec)
    nodes = ref.by_id(world)
    S, dontcare, computed, reads, writes = stale_and_needed(rec, world)
    if dontcare:
        return out
    owner = store_owner(world)
    # writes
    written = {}
    for ev in rec.events:
        if ev[3] == "store-effect":
            written[ev[5]] = written.get(ev[5], 0) + 1
    exp_written = {nodes[i]["store"] for i in writes}
    if set(written) != exp_written:
        out.append(V("rewritten-set", f"stores rewritten {sorted(written)}; out of date (non-source): {sorted(exp_written)} "
                                      f"[out-of-date nodes {sorted(S)}]"))
        return out
    twice = [k for k, c in written.items() if c != 1]
    if twice:
        out.append(V("rewritten-twice", f"stores written more than once: {twice}"))
        return out
    # calls
    executed = set(ix.starts)
    exp_exec = {i for i in computed if nodes[i]["kind"] == "call"}
    if executed != exp_exec:
        out.append(V("executed-set", f"calls executed {sorted(executed)}; needed {sorted(exp_exec)} "
                                     f"[out-of-date nodes {sorted(S)}]"))
        return out
    for nid, sts in ix.starts.items():
        if len(sts) != 1:
            out.append(V("executed-twice", f"call {nid} executed {len(sts)} times"))
            return out
    # reads
    read = {}
    for (op, name), sts in ix.sstarts.items():
        if op == "read":
            read[name] = len(sts)
    exp_reads = {nodes[i]["store"] for i in reads}
    if set(read) - exp_reads:
        out.append(V("unneeded-read", f"stores read {sorted(read)} but only {sorted(exp_reads)} are consumed by an "
                                      f"executed call or the output"))
        return out
    if exp_reads - set(read):
        out.append(V("missing-read", f"stores {sorted(exp_reads - set(read))} are consumed but were never read"))
        return out
    # (a store is read at most once per registry entry that is consumed - one store object may sit behind two entries)
    allowed = {}
    for i in reads:
        allowed[nodes[i]["store"]] = allowed.get(nodes[i]["store"], 0) + 1
    multi = [k for k, c in read.items() if c > allowed.get(k, 1)]
    if multi:
        out.append(V("read-twice", f"stores read more often than they have consumed registry entries: {multi}"))
    return out


def o_repeat_noop(rec, world, hist):
    out = []
    if len(hist.records) < 2:
        return out
    prev = hist.records[-2]
    if prev.idx != rec.idx - 1:
        return out  # (a minimised history may have lost the run this one repeats: nothing to compare with)
    if prev.exc is not None or prev.aborted or rec.exc is not None or faulty(prev.op):
        return out
    if ref.out_of_date(world, prev.mtimes_before, fresh=prev.fresh_instant)[1]:
        return out  # the statement does not determine this case (DESIGN 4.2)
    ix = index(rec)
    if ix.starts or any(k[0] in ("read", "write") for k in ix.sstarts):
        out.append(V("repeat-not-noop", f"immediately repeated run did work: calls {sorted(ix.starts)}, "
                                        f"store ops {sorted(k for k in ix.sstarts if k[0] != 'mtime')}"))
    return out


# --------------------------------------------------------------------------
# C09
# --------------------------------------------------------------------------
def o_writeread(rec, world, hist):
    out = []
    if rec.aborted:
        return out
    ix = index(rec)
    nodes = ref.by_id(world)
    ds = ref.deps_star(world)
    owner = store_owner(world)
    success = rec.exc is None and not rec.op.get("cfg", {}).get("dry_run")
    # argument consumers through routing nodes
    aps = {n["id"]: list(dict.fromkeys(ref.arg_preds(n))) for n in world["nodes"]}

    def arg_sources(c, seen=None):
        """registered / call nodes whose value reaches call c as an argument"""
        seen = set() if seen is None else seen
        res = set()
        for p in aps[c]:
            if p in seen:
                continue
            seen.add(p)
            k = nodes[p]["kind"]
            if k in ("gather", "unpack", "item") and not nodes[p].get("store"):
                res |= arg_sources(p, seen)
            else:
                res.add(p)
        return res

    wend = {}
    wstart = {}
    for (op, name), ends in ix.sends.items():
        if op == "write":
            ok = [s for s, _, st, _ in ends if st == "ok"]
            if ok:
                wend[name] = ok[-1]
    for (op, name), sts in ix.sstarts.items():
        if op == "write":
            wstart[name] = sts[0][0]
    effect = {name: seqs[0] for name, seqs in ix.effects.items()}
    for name, eseq in effect.items():
        n = owner[name]
        if nodes[n]["kind"] != "call":
            continue   # (a literal or a gather result with a value store: no user call produces it)
        ce = ix.ok_end(n)
        if ce is None or ce > wstart[name]:
            out.append(V("write-before-compute", f"store {name} was written (seq {wstart[name]}) before its call {n} "
                                                 f"finished (ok end {ce})"))
            return out
    for name in wstart:
        n = owner[name]
        w_end = wend.get(name)
        r_sts = ix.sstarts.get(("read", name), [])
        r_ok = ix.sok_end(("read", name))
        if r_sts and (w_end is None or r_sts[0][0] < w_end):
            out.append(V("read-before-write", f"rebuilt store {name}: read started at seq {r_sts[0][0]}, write finished at {w_end}"))
            return out
        for c, sts in ix.starts.items():
            if n not in ds[c]:
                continue
            first = min(s for s, _ in sts)
            if w_end is None or first < w_end:
                out.append(V("dependent-before-write", f"call {c} depends on rebuilt stored node {n} but started at seq "
                                                       f"{first}, before the write of {name} finished ({w_end})"))
                return out
            if n in arg_sources(c):
                if r_ok is None or first < r_ok:
                    out.append(V("consumer-before-readback", f"call {c} consumes rebuilt stored node {n} but started at seq "
                                                             f"{first}, before {name} was read back (read ok end {r_ok})"))
                    return out
        # a source that (merely) depends on the rebuilt node is read only after the write
        for m in world["nodes"]:
            if m["kind"] == "src" and n in ds[m["id"]]:
                rs = ix.sstarts.get(("read", m["store"]), [])
                if rs and (w_end is None or rs[0][0] < w_end):
                    out.append(V("source-read-before-write", f"source {m['id']} ({m['store']}) depends on rebuilt stored node "
                                                             f"{n} but was read at seq {rs[0][0]}, before the write of {name} "
                                                             f"finished ({w_end})"))
                    return out
        # downstream stored values are rebuilt in the same run, later
        for m in world["nodes"]:
            if m.get("store") and m["kind"] != "src" and n in ds[m["id"]]:
                e2 = effect.get(m["store"])
                if e2 is None:
                    if success:
                        out.append(V("downstream-not-rebuilt", f"stored node {n} was rebuilt but downstream stored node "
                                                               f"{m['id']} was not rewritten in the same run"))
                        return out
                elif w_end is None or e2 < w_end:
                    out.append(V("downstream-before-upstream", f"downstream store {m['store']} written at seq {e2} before "
                                                               f"upstream {name} finished writing ({w_end})"))
                    return out
    # out-of-date dependent sources are read only after their dependencies ran
    S, dontcare = ref.out_of_date(world, rec.mtimes_before, fresh=rec.fresh_instant)
    for n in world["nodes"]:
        if n["kind"] != "src" or n["id"] not in S or n["id"] in dontcare:
            continue
        r_sts = ix.sstarts.get(("read", n["store"]), [])
        if not r_sts:
            continue
        rs = r_sts[0][0]
        if sum(1 for m in world["nodes"] if m.get("store") == n["store"]) > 1:
            # the same store object sits behind another registry entry, too: its reads cannot be told apart in the
            # log. If the source's value is consumed at all, its own read is at the latest the last of them.
            needed_reads = stale_and_needed(rec, world)[3]
            if n["id"] not in needed_reads:
                continue
            if not success:
                # in a run that failed the source's own read may never have happened: only when there are more
                # reads than the other entries account for was the source read for certain (C-13, DESIGN 13)
                others = [m for m in world["nodes"] if m.get("store") == n["store"] and m["id"] != n["id"]
                          and m["id"] in needed_reads]
                if len(r_sts) <= len(others) or (rec.op.get("faults") or {}).get("stores"):
                    continue
            rs = max(x[0] for x in r_sts)
        # calls it depends on: through unregistered nodes and through
        # registered nodes that are themselves out of date (an up-to-date
        # registered node is a boundary: it is not recomputed)
        for c in sorted(_calls_before_source(world, n["id"], S)):
            if c in ix.starts:
                e = ix.ok_end(c)
                if e is None or e > rs:
                    out.append(V("depsource-read-early", f"out-of-date dependent source {n['id']} ({n['store']}) was read at "
                                                         f"seq {rs} before call {c} it depends on had finished ({e})"))
                    return out
            elif success:
                out.append(V("depsource-deps-not-run", f"out-of-date dependent source {n['id']} was read although call {c} "
                                                       f"it depends on did not run"))
                return out
    return out


def _calls_before_source(world, s, S):
    nodes = ref.by_id(world)
    preds = ref.direct_preds(world)
    seen = set()
    calls = set()
    stack = list(preds[s])
    while stack:
        x = stack.pop()
        if x in seen:
            continue
        seen.add(x)
        if nodes[x].get("store") and x not in S:
            continue  # up to date: boundary
        if nodes[x]["kind"] == "call":
            calls.add(x)
        stack.extend(preds[x])
    return calls

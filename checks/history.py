"""History-machine checks over registry worlds (C03 C05 C08 C09 C14)."""
import copy

from checks import oracles as O
from checks import oracles_reg as R
from checks.common import result
from model import machine, ref, worldgen
from simkit import fs

SIZES = {"quick": dict(n_min=4, n_max=11), "thorough": dict(n_min=4, n_max=18)}


def gen_store_faults(rng, world, p=0.5):
    out = []
    names = sorted(world["stores"])
    if names and rng.random() < p:
        for _ in range(rng.randrange(1, 3)):
            op = rng.choice(["read", "write", "write", "mtime"])
            f = dict(store=rng.choice(names), op=op, exc=rng.choice(["E1", "E2", "OSError", "F1", "Z1"]))
            if op == "write":
                f["when"] = rng.choice(["before", "after"])
            if rng.random() < 0.3:
                f["until"] = rng.randrange(1, 3)
            out.append(f)
    return out


def gen_history(seed, tier, *, n_ops=(2, 6), genkw=None,
                allow=("run", "fail", "cut", "update", "delete", "fresh", "intr", "bump", "dry"),
                final_run=True):
    rng = worldgen.child_rng(seed, "history")
    # (value stores on literals and gather results, too; one store object behind two source nodes)
    kw = dict(SIZES[tier], p_store_other=0.12, p_dup_src=0.1, p_fed_same=0.4)
    kw.update(genkw or {})
    world = worldgen.gen_world(rng, registry=True, p_unpack=0.0, scopes="plain", **kw)
    sc = worldgen.gen_sched(rng)
    derived = ref.derived_stores(world)
    pure = [n["store"] for n in world["nodes"] if n["kind"] == "src" and not n.get("deps") and n["store"] not in derived]
    pure = [s for s in pure if not any(v == _owner(world, s) for _, v in world.get("late_deps", ()))]
    fed = {sd["feeds"] for sd in world["stores"].values() if sd.get("feeds")}
    deletable = [n["store"] for n in world["nodes"] if n.get("store") and n["store"] not in pure and n["store"] not in fed]
    ops = []
    weights = dict(run=4, fail=2, cut=2, update=2, delete=2, fresh=1, intr=1, bump=2, dry=2)
    future_done = [False]
    bumpable = [n["id"] for n in world["nodes"] if n["kind"] == "call" and n.get("store") and n["store"] in deletable]
    kinds = [k for k in allow for _ in range(weights[k])]
    for _ in range(rng.randrange(*n_ops)):
        k = rng.choice(kinds)
        if k == "run":
            ops.append(dict(op="run", cfg=_cfg(rng, world)))
            if not future_done[0] and deletable and rng.random() < 0.1:
                # right after a successful run - every store is up to date - one stored value gets a modified time far
                # ahead of every clock (a skewed writer, a touched file): later writes are later still
                future_done[0] = True
                ops.append(dict(op="future", store=rng.choice(deletable)))
            elif not future_done[0] and rng.random() < 0.06:
                future_done[0] = True
                ops.append(dict(op="epoch0"))
        elif k == "fail":
            cfg = _cfg(rng, world)
            faults = dict(calls=worldgen.gen_call_faults(rng, world, p_fail=0.2, excs=("E1", "E2", "B1")),
                          stores=gen_store_faults(rng, world))
            ops.append(dict(op="run", cfg=cfg, faults=faults))
        elif k == "cut":
            cfg = _cfg(rng, world)
            ops.append(dict(op="run", cfg=cfg, faults=dict(cut_at=rng.randrange(1, 30),
                                                            cut_mode=rng.choice(["exc", "death"]))))
        elif k == "intr":
            cfg = _cfg(rng, world)
            if rng.random() < 0.5:
                ops.append(dict(op="run", cfg=cfg, faults=dict(interrupt_at=rng.randrange(1, 8))))
            else:
                ops.append(dict(op="run", cfg=cfg, faults=dict(interrupt_at_op=rng.randrange(1, 25))))
        elif k == "update" and pure:
            ops.append(dict(op="update", store=rng.choice(pure)))
        elif k == "delete" and deletable:
            ops.append(dict(op="delete", store=rng.choice(deletable)))
        elif k == "fresh":
            if rng.random() < 0.25 and world["stores"]:
                ops.append(dict(op="fresh_at", store=rng.choice(sorted(world["stores"]))))
            else:
                ops.append(dict(op="fresh"))
        elif k == "bump" and bumpable:
            ops.append(dict(op="bump", node=rng.choice(bumpable)))
        elif k == "dry":
            # a dry run of the same Plan and Registry objects somewhere in the history: it touches nothing, so whatever
            # comes later - store changes, then real runs of those very objects - goes as if it had not happened
            ops.append(dict(op="dryrun", cfg=_cfg(rng, world)))
    if final_run:
        ops.append(dict(op="run", cfg=_cfg(rng, world), final=True))
    for op in ops:
        # a run is either the first thing a fresh process does (Plan and Registry rebuilt from the description) or
        # one more run of the same objects in a process that has run them before
        if op["op"] == "run" and rng.random() < 0.4:
            op["reuse"] = True
    after_dry = False
    for op in ops:
        if op["op"] == "dryrun":
            after_dry = True
        elif op["op"] == "run" and after_dry:
            op["reuse"] = True     # the objects the dry run was given are the ones that are run next
            after_dry = False
    # distance between successive modified times: from whole seconds down to tens of microseconds
    tick = rng.choice([1.0, 1.0, 0.3, 0.3, 0.001, 0.00002])
    return dict(seed=seed, world=world, ops=ops, sched=sc, tick=tick), rng


def _owner(world, store):
    for n in world["nodes"]:
        if n.get("store") == store:
            return n["id"]


def _cfg(rng, world):
    cfg = worldgen.gen_cfg(rng, world, registry=True, retry_p=0.15)
    cfg["output"] = rng.random() < 0.7
    cfg["use_fresh"] = True
    return cfg


def generate(prop, seed, tier):
    return GEN[prop](seed, tier)


def execute(prop, desc):
    return EXEC.get(prop, exec_generic)(prop, desc)


def exec_generic(prop, desc):
    hist = machine.History(desc)
    try:
        hist.init_sources()
        tapes = desc.get("tapes") or {}
        viol = []
        for idx, op in enumerate(desc["ops"]):
            rec = machine.apply_op(hist, op, idx, tape=tapes.get(str(idx)))
            if rec is not None:
                viol.extend(ORACLES[prop](rec, hist.world, hist))
                if viol:
                    break
        return result(desc, hist, viol)
    finally:
        hist.cleanup()   # (file-backed worlds keep their files in a scratch directory)


# ---- C03 -------------------------------------------------------------------
def gen_c03(seed, tier):
    if seed % 7 in (0, 3):
        desc, rng = gen_history(seed, tier, n_ops=(2, 5), allow=("run", "update", "update", "delete", "fresh"),
                                genkw=STRESS_GENKW)
        if seed % 2:
            desc, rng = gen_fanin_history(seed, rng)
        stress_stale_check(desc, rng)
        return desc
    desc, rng = gen_history(seed, tier)
    return desc


def o_c03(rec, world, hist):
    # (what an interrupted run leaves running belongs to C17, where it is checked for every interrupt position;
    #  a hang is reported here too, since nothing could be said about the history after it)
    t = [v for v in O.o_term(rec, world, hist)[:1] if not (v["tags"].get("interrupt") and v["oracle"] != "hang")]
    return R.o_fromscratch(rec, world, hist) + t


# ---- C05 -------------------------------------------------------------------
STRESS_GENKW = dict(p_src=0.5, p_stored=0.6, p_depsrc=0.05, p_fed=0.05, p_nested=0.1, p_lit=0.02,
                    durs=(0.0,), max_fan_in=3, n_min=3, n_max=8)


def gen_fanin_history(seed, rng):
    """The canonical shape for races inside the stale check: k registered inputs (sources or stored calls on sources)
    examined concurrently, feeding - directly or through unstored intermediates - one or two stored fan-in nodes;
    history: build everything, then touch some of the inputs, then the run under test."""
    nodes, stores = [], {}

    def store():
        name = f"s{len(stores)}"
        stores[name] = dict(flavour=rng.choice(["plain", "plain", "norm"]), cls=rng.choice(["A", "B"]))
        return name

    def call(args, stored=False, deps=()):
        n = dict(id=len(nodes), kind="call", args=[["n", a] for a in args], kwargs=[], deps=sorted(deps), scope=[],
                 dur=0.0, ret="val", fname=rng.choice(["f", "g", "h"]), depth=0)
        if stored:
            n["store"] = store()
            n["add_depth"] = 0
        nodes.append(n)
        return n["id"]

    k = rng.randrange(2, 5)
    srcs = []
    for _ in range(k):
        nodes.append(dict(id=len(nodes), kind="src", store=store(), deps=[], scope=[], depth=0))
        srcs.append(nodes[-1]["id"])
    inputs = []
    for s_ in srcs:
        r = rng.random()
        if r < 0.4:
            inputs.append(s_)
        elif r < 0.7:
            inputs.append(call([s_]))                  # unstored intermediate: the time flows through it
        else:
            inputs.append(call([s_], stored=True))     # stored intermediate: its own time counts
    mid = call(inputs, stored=True)
    if rng.random() < 0.5:
        plain = [rng.choice(inputs)] if rng.random() < 0.5 else []
        call([mid] + rng.sample(inputs, rng.randrange(0, len(inputs))), stored=True, deps=plain)
    outs = [["n", mid], ["n", len(nodes) - 1]]
    if rng.random() < 0.5:
        # fan-out: several consumers of the rebuilt value become ready at the same moment (after its read-back)
        cons = [call([mid] + ([rng.choice(inputs)] if rng.random() < 0.3 else []), stored=rng.random() < 0.3)
                for _ in range(rng.randrange(2, 5))]
        outs.append(["L", [["n", c] for c in cons]])
    world = dict(nodes=nodes, stores=stores, late_deps=[], output=rng.choice([None] + outs))
    cfg = dict(max_workers=rng.choice([2, 3]), scheduler=rng.choice([None, "default", "random"]), max_errors=0, retry=None,
               stale_workers=rng.choice([2, 3, 4]), output=rng.random() < 0.5, use_fresh=True)
    ops = [dict(op="run", cfg=dict(cfg))]
    pure = [nodes[i]["store"] for i in srcs]
    for name in rng.sample(pure, rng.randrange(1, len(pure))):     # at least one input stays older than the fan-in node
        ops.append(dict(op="update", store=name))
    if rng.random() < 0.2:
        ops.append(dict(op="fresh"))
    ops.append(dict(op="run", cfg=dict(cfg), final=True))
    sc = worldgen.gen_sched(rng)
    return dict(seed=seed, world=world, ops=ops, sched=sc, tick=rng.choice([1.0, 0.3, 0.001])), rng


def gen_chain_history(seed, rng):
    """The canonical repair scenario: a consistent state of a chain of stored values (with unstored links and side
    branches), one perturbation in the middle of it (a stored value deleted, its code changed, a source updated,
    fresh_time advanced), then the run under test."""
    nodes, stores = [], {}

    def store():
        name = f"s{len(stores)}"
        stores[name] = dict(flavour=rng.choice(["plain", "plain", "norm"]), cls=rng.choice(["A", "B"]))
        return name

    def call(args, stored=False, deps=(), dur=0.0):
        n = dict(id=len(nodes), kind="call", args=[["n", a] for a in args], kwargs=[], deps=sorted(deps), scope=[],
                 dur=dur, ret="val", fname=rng.choice(["f", "g", "h"]), depth=0)
        if stored:
            n["store"] = store()
            n["add_depth"] = 0
        nodes.append(n)
        return n["id"]

    srcs = []
    for _ in range(rng.randrange(1, 3)):
        nodes.append(dict(id=len(nodes), kind="src", store=store(), deps=[], scope=[], depth=0))
        srcs.append(nodes[-1]["id"])
    prev, stored_ids = rng.choice(srcs), []
    for _ in range(rng.randrange(2, 5)):
        if rng.random() < 0.3:
            prev = call([prev])                                   # unstored link
        extra = [rng.choice(srcs)] if rng.random() < 0.3 else []
        prev = call([prev] + extra, stored=True, dur=rng.choice([0.0, 0.0, 1.0]))
        stored_ids.append(prev)
        if rng.random() < 0.3:
            call([prev], stored=rng.random() < 0.5)               # side branch
    world = dict(nodes=nodes, stores=stores, late_deps=[], output=rng.choice([None, ["n", prev], ["n", stored_ids[0]]]))
    cfg = dict(max_workers=rng.choice([1, 2, 3]), scheduler=rng.choice([None, "default", "random"]), max_errors=0,
               retry=None, stale_workers=rng.choice([None, 1, 2]), output=rng.random() < 0.6, use_fresh=True)
    ops = [dict(op="run", cfg=dict(cfg))]
    for _ in range(rng.randrange(1, 3)):
        k = rng.choice(["delete", "delete", "bump", "bump", "update", "fresh"])
        victim = nodes[rng.choice(stored_ids[:-1] or stored_ids)]
        if k == "delete":
            ops.append(dict(op="delete", store=victim["store"]))
        elif k == "bump":
            ops.append(dict(op="bump", node=victim["id"]))
        elif k == "update":
            ops.append(dict(op="update", store=nodes[rng.choice(srcs)]["store"]))
        else:
            ops.append(dict(op="fresh"))
    ops.append(dict(op="run", cfg=dict(cfg), final=True))
    return dict(seed=seed, world=world, ops=ops, sched=worldgen.gen_sched(rng), tick=rng.choice([1.0, 0.3, 0.001])), rng


def stress_stale_check(desc, rng):
    """Stress the (multi-threaded) stale check itself: >= 2 stale-check workers, instruction-level pre-emption inside
    the transformation code and frequent switches in the run under test (the last operation); the history before it
    only has to produce store states and runs under cheap schedules."""
    for op in desc["ops"]:
        if op["op"] == "run":
            op["cfg"]["stale_workers"] = rng.choice([2, 3, 4])
            op["cfg"]["max_workers"] = rng.choice([2, 3])
            op["sched"] = dict(strategy=["rtb"], gran="sync", salt=desc["sched"]["salt"])
    final = desc["ops"][-1]
    final["sched"] = dict(strategy=rng.choice([["rw", 0.05, 0.5], ["rw", 0.1, 0.5], ["rw", 0.2, 0.5], ["rw", 0.3, 0.5],
                                               ["pct", 30, 1500], ["pct", 10, 600, 1]]),
                          gran="opcode+", salt=desc["sched"]["salt"])


def gen_c05(seed, tier):
    if seed % 2 == 0:
        # several sources and stored fan-in nodes, source updates that make exactly one predecessor newer
        desc, rng = gen_history(seed, tier, n_ops=(2, 5), allow=("run", "update", "update", "delete"), genkw=STRESS_GENKW)
        if seed % 5 < 2:
            desc, rng = gen_fanin_history(seed, rng)
        stress_stale_check(desc, rng)
    else:
        desc, rng = gen_history(seed, tier)
        if seed % 6 == 5:
            # the non-source stores are real files of the bundled stores (pickle files, touch files, pathlib paths)
            from checks.cuts import file_backed

            names = ref.file_backable(desc["world"])
            for nm in names:
                desc["world"]["stores"][nm]["flavour"] = "plain"
            if names:
                file_backed(desc, names, rng)
    # the run under test and its immediate repetition are fault-free
    desc["ops"].append(dict(op="run", cfg=dict(desc["ops"][-1]["cfg"], output=False), repeat=True))
    return desc


def o_c05(rec, world, hist):
    out = R.o_exact(rec, world, hist)
    if rec.op.get("repeat"):
        out += R.o_repeat_noop(rec, world, hist)
    return out


# ---- C09 -------------------------------------------------------------------
def gen_c09(seed, tier):
    if seed % 3 == 0:
        # a stored fan-in node one of whose inputs is rebuilt in this run must be rebuilt too - also when the stale
        # check examines its inputs on different workers at the same moment
        desc, rng = gen_history(seed, tier, n_ops=(2, 5), allow=("run", "update", "update", "delete"),
                                genkw=dict(STRESS_GENKW, p_norm=0.8))
        if seed % 2:
            desc, rng = gen_fanin_history(seed, rng)
        stress_stale_check(desc, rng)
        return desc
    desc, rng = gen_history(seed, tier, genkw=dict(p_norm=0.8, p_stored=0.5, p_dep=0.35, durs=(0.0, 0.0, 1.0, 3.0)),
                            allow=("run", "fail", "update", "delete", "fresh"))
    for s in desc["world"]["stores"].values():
        if rng.random() < 0.5:
            s["dur"] = dict(read=rng.choice([0.0, 1.0]), write=rng.choice([0.0, 2.0]))
    return desc


def o_c09(rec, world, hist):
    out = R.o_writeread(rec, world, hist)
    if not out and rec.exc is None and not rec.aborted and not rec.op.get("cfg", {}).get("dry_run"):
        # what consumers (and the output) receive is what the store's read returned: every executed call computed
        # the value that evaluation with read-back semantics gives (normalising stores make the difference visible)
        out = O.o_value(rec, world, hist)
    return out


GEN = {"C03": gen_c03, "C05": gen_c05, "C09": gen_c09}
ORACLES = {"C03": o_c03, "C05": o_c05, "C09": o_c09}
EXEC = {}


# ---- C14 -------------------------------------------------------------------
def gen_c14(seed, tier):
    desc, rng = gen_history(seed, tier, n_ops=(0, 5))
    desc["ops"][-1]["cfg"]["max_errors"] = 0
    desc["ops"][-1]["cfg"]["retry"] = None
    desc["ops"][-1]["cfg"]["transform"] = rng.choice([None, None, "extra-call", "wrap-output", "both"])
    if seed % 7 == 3:
        # file-backed stores, some with a staging file left behind by a writer that was killed: a dry run leaves the
        # directory exactly as it found it
        from checks.cuts import file_backed

        fnames = ref.file_backable(desc["world"])
        for nm in fnames:
            desc["world"]["stores"][nm]["flavour"] = "plain"
        if fnames:
            file_backed(desc, fnames, rng)
            desc["orphan_staging"] = [nm for nm in fnames if rng.random() < 0.6]
    names = sorted(desc["world"]["stores"])
    r = rng.random()
    if rng.random() < 0.25:
        # a second dry run of the same Plan and Registry - with another fresh_time, hence other decisions - goes on in
        # another thread while the dry run under test is planned
        desc["dry_concurrent"] = dict(fresh=rng.choice(["far-future", "none"]), stale_workers=rng.choice([1, 2, 3]))
        r = 1.0
        desc["ops"][-1]["sched"] = dict(strategy=rng.choice([["rw", 0.05, 0.5], ["rw", 0.2, 0.5], ["pct", 5, 800], ["pct", 3, 300, 1]]),
                                        gran=rng.choice(["line", "opcode+"]), salt=desc["sched"]["salt"])
    if names and r < 0.3:
        # a store that cannot be examined: the real run fails in the stale check, so must the dry run
        desc["ops"][-1]["faults"] = dict(stores=[dict(store=rng.choice(names), op="mtime",
                                                      exc=rng.choice(["E1", "OSError", "TimeoutError", "FileNotFoundError"]))])
    elif names and r < 0.4:
        # a transient failure that the caller's retry policy absorbs - in the dry run as in the real run
        desc["ops"][-1]["cfg"]["retry"] = rng.choice([2, 3, ["custom", 2]])
        desc["ops"][-1]["faults"] = dict(stores=[dict(store=rng.choice(names), op="mtime", until=1,
                                                      exc=rng.choice(["E1", "OSError", "TimeoutError"]))])
    elif names and r < 0.5:
        f = dict(store=rng.choice(names), op=rng.choice(["read", "write"]), exc=rng.choice(["E1", "OSError"]))
        if f["op"] == "write":
            f["when"] = rng.choice(["before", "after"])
        desc["ops"][-1]["faults"] = dict(stores=[f])
    return desc


def _state(hist):
    return (hist.disk.snapshot(), hist.fresh, dict(hist.src_version))


def _restore(hist, st):
    hist.disk.restore(st[0])
    hist.fresh = st[1]
    hist.src_version = dict(st[2])


def _activity(rec):
    calls, reads, writes, sides = {}, {}, {}, {}
    for ev in rec.events:
        k = ev[3]
        if k == "call-start":
            calls[ev[4]] = calls.get(ev[4], 0) + 1
        elif k == "store-start" and ev[4] == "read":
            reads[ev[5]] = reads.get(ev[5], 0) + 1
        elif k == "store-effect":
            writes[ev[5]] = writes.get(ev[5], 0) + 1
        elif k == "side-write":
            sides[ev[4]] = sides.get(ev[4], 0) + 1
    return dict(calls=calls, reads=reads, writes=writes, side_writes=sides)


def exec_c14(prop, desc):
    hist = machine.History(desc)
    try:
        return _exec_c14(prop, desc, hist)
    finally:
        hist.cleanup()


def _exec_c14(prop, desc, hist):
    import uberjob
    from model.core import canon, typed_equal

    world = hist.world
    hist.init_sources()
    st_init = _state(hist)
    tapes = desc.get("tapes") or {}
    viol = []
    last = len(desc["ops"]) - 1
    for idx, op in enumerate(desc["ops"][:-1]):
        machine.apply_op(hist, op, idx, tape=tapes.get(str(idx)))
    op = desc["ops"][-1]
    for nm in desc.get("orphan_staging") or ():
        with fs.real_open(str(hist.disk.path(nm)) + ".STAGING", "wb") as f:
            f.write(b"partial data of a writer that was killed")
    st0 = _state(hist)
    # (1) the dry run
    dop = copy.deepcopy(op)
    dop["cfg"]["dry_run"] = True
    wrap = None
    if desc.get("dry_concurrent"):
        import datetime as _dt

        from simkit import prims

        dc = desc["dry_concurrent"]

        def wrap(client, sim, rt, built, kwargs):
            kw2 = {k: v for k, v in kwargs.items() if k in ("registry", "max_workers", "scheduler", "output")}
            kw2.update(dry_run=True, progress=None, stale_check_max_workers=dc["stale_workers"])
            if dc["fresh"] == "far-future":
                kw2["fresh_time"] = _dt.datetime(2200, 1, 1, tzinfo=_dt.timezone.utc)
            box = {}

            def other():
                try:
                    box["r"] = uberjob.run(built.plan, **kw2)
                except BaseException as e:  # noqa
                    box["e"] = e
                    if type(e).__name__ == "SimAbort":
                        raise

            t = prims.Thread(target=other)
            t.start()
            try:
                return client()
            finally:
                t.join()

    rec_d = machine.run_op(hist, dop, last, tape=tapes.get(str(last)), client_wrap=wrap)
    touched = [ev for ev in rec_d.events if ev[3] in ("call-start", "side-write", "store-effect")
               or (ev[3] == "store-start" and ev[4] != "mtime")]
    if touched:
        viol.append(O.V("dry-run-touched", f"dry run executed or accessed: {[e[3:6] for e in touched[:4]]}"))
    elif hist.disk.snapshot()[0] != st0[0][0]:
        viol.append(O.V("dry-run-touched", "store contents changed during a dry run"))
    elif len(st0[0]) > 3 and hist.disk.snapshot()[3] != st0[0][3]:
        viol.append(O.V("dry-run-touched", f"the stores' directory changed during a dry run: {sorted(st0[0][3])} -> "
                                           f"{sorted(hist.disk.snapshot()[3])}"))
    elif rec_d.exc is None:
        if not (isinstance(rec_d.result, tuple) and len(rec_d.result) == 2):
            viol.append(O.V("dry-run-result", f"dry run returned {type(rec_d.result).__name__}, not (plan, node)"))
    viol.extend(O.o_unmodified(rec_d, world, hist))
    if not viol and rec_d.exc is not None:
        # the dry run failed: then the corresponding real run (same store state, same options, same faults) fails too
        _restore(hist, st0)
        rec_r = machine.run_op(hist, copy.deepcopy(op), last + 1)
        if rec_r.exc is None:
            viol.append(O.V("dry-run-failed", f"the dry run raised {rec_d.exc!r} / {rec_d.exc.__cause__!r} although the "
                                              f"real run from the same store state, with the same options, succeeds"))
    if not viol and rec_d.exc is None:
        phys, out_node = rec_d.result
        # (2) the corresponding real run from the same store state
        _restore(hist, st0)
        rec_r = machine.run_op(hist, copy.deepcopy(op), last + 1)
        end_r = {k: v[0] for k, v in hist.disk.data.items()}
        # (3) the returned physical plan alone, no registry
        _restore(hist, st0)
        nodes_list = list(phys.graph.nodes())

        def runner(built, kwargs):
            kw = {k: v for k, v in kwargs.items() if k in ("max_workers", "scheduler", "max_errors", "progress")}
            return uberjob.run(phys, output=nodes_list, **kw)

        pop = copy.deepcopy(op)
        pop["cfg"]["capture_physical"] = False
        rec_p = machine.run_op(hist, pop, last + 2, built=rec_d.built, runner=runner)
        end_p = {k: v[0] for k, v in hist.disk.data.items()}
        if (rec_r.exc is None) != (rec_p.exc is None):
            viol.append(O.V("dry-plan-outcome", f"real run: {rec_r.exc!r}; executing the returned physical plan: {rec_p.exc!r}"))
        elif rec_r.exc is None:
            a, b = _activity(rec_r), _activity(rec_p)
            if a != b:
                diff = {k: (a[k], b[k]) for k in a if a[k] != b[k]}
                viol.append(O.V("dry-plan-activity", f"real run vs returned physical plan differ in (real, plan): {diff}"))
            else:
                wants = op["cfg"].get("output", True) and world.get("output") is not None
                if wants:
                    if out_node is None:
                        viol.append(O.V("dry-plan-output", "an output was requested but the dry run returned no output node"))
                    else:
                        got = rec_p.result[nodes_list.index(out_node)]
                        # (two separately built plans: opaque arguments are distinct objects, compare canonically)
                        if canon(got) != canon(rec_r.result):
                            viol.append(O.V("dry-plan-output", f"physical plan's output node yields {canon(got)[:200]}, "
                                                               f"the real run returned {canon(rec_r.result)[:200]}"))
                if not viol and set(end_r) == set(end_p):
                    bad = [k for k in end_r if canon(end_r[k]) != canon(end_p[k])]
                    if bad:
                        viol.append(O.V("dry-plan-endstate", f"stores {bad} differ between the real run and the physical plan"))
                elif not viol:
                    viol.append(O.V("dry-plan-endstate", f"store sets differ: {sorted(end_r)} vs {sorted(end_p)}"))
    if not viol and rec_d.exc is None and st_init[0][0] != st0[0][0]:
        # (4) "touches nothing" includes the objects it was given: the stores go back to what they were before the
        # history, and the Plan and Registry that went through the dry run are run for real - they do what freshly built
        # ones do from that state
        _restore(hist, st_init)
        rec_a = machine.run_op(hist, dict(copy.deepcopy(op), reuse=True), last + 3, built=rec_d.built)
        end_a = {k: v[0] for k, v in hist.disk.data.items()}
        _restore(hist, st_init)
        fop = copy.deepcopy(op)
        fop.pop("reuse", None)
        rec_b = machine.run_op(hist, fop, last + 4)
        end_b = {k: v[0] for k, v in hist.disk.data.items()}
        if (rec_a.exc is None) != (rec_b.exc is None):
            viol.append(O.V("dry-run-left-state", f"after other store contents, the objects a dry run was given: "
                                                  f"{rec_a.exc!r}; freshly built ones: {rec_b.exc!r}"))
        elif rec_a.exc is None:
            a, b = _activity(rec_a), _activity(rec_b)
            if a != b:
                diff = {k: (a[k], b[k]) for k in a if a[k] != b[k]}
                viol.append(O.V("dry-run-left-state", f"a real run of the objects a dry run was given differs from a run "
                                                      f"of freshly built ones (given, fresh): {diff}"))
            elif set(end_a) != set(end_b) or [k for k in end_a if canon(end_a[k]) != canon(end_b[k])]:
                viol.append(O.V("dry-run-left-state", "end states differ between the objects a dry run was given and "
                                                      "freshly built ones"))
    return result(desc, hist, viol)


GEN["C14"] = gen_c14
EXEC["C14"] = exec_c14

"""C19: a failure is attributed to the user line that created the failing
symbolic call.  Rides on fault-injecting runs; creation sites are nested in
helper functions to a generated depth (below, at and above the limit)."""
import copy

from checks import oracles as O
from checks import oracles_reg as R
from checks.common import result
from checks.history import gen_store_faults
from model import build as B
from model import machine, ref, worldgen
from simkit import sched

LIMIT_FRAMES = 4  # MAX_TRACEBACK_DEPTH (3) + 1 frames, then the truncation marker


def generate(prop, seed, tier):
    rng = worldgen.child_rng(seed, "c19")
    registry = rng.random() < 0.55
    world = worldgen.gen_world(rng, registry=registry, n_min=3, n_max=10 if tier == "quick" else 16,
                               depth_max=6, scopes="plain", p_unpack=0.0 if registry else 0.15,
                               p_nested=0.3, durs=(0.0, 0.0, 1.0))
    for n in world["nodes"]:
        # include the "no helper frame at all" depth
        if "depth" in n and rng.random() < 0.2:
            n["depth"] = -1
        if "add_depth" in n and rng.random() < 0.2:
            n["add_depth"] = -1
    # where the plan-building helpers live: scripts, notebooks (ipykernel compiles cells under such paths), REPL
    world["helper_file"] = rng.choice([None, None, "/tmp/ipykernel_4242/3141592653.py", "<ipython-input-7-2f1c>",
                                       "/home/u/my project/build plan.py", "/opt/site-packages/IPython/extensions/jobs.py",
                                       "<stdin>", "C:\\Users\\u\\plan.py", "/srv/app/ipykernel_launcher_jobs.py",
                                       "<PKG>_pipelines/build.py", "<PKG>_jobs.py", "<PKGPARENT>/uberjobs/plan.py"])
    world["creator_in_helper"] = rng.random() < 0.5   # the creating line itself lives in the helper file
    world["gen_build"] = rng.random() < 0.3            # calls created by a generator resumed from different places
    cfg = worldgen.gen_cfg(rng, world, registry=registry, retry_p=0.2)
    cfg["max_errors"] = rng.choice([0, 0, 1, None])
    sc = worldgen.gen_sched(rng)
    faults = dict(calls={}, stores=[])
    kind = rng.choice(["call", "call", "store", "mtime", "unpack", "gather"] if registry else
                      ["call", "call", "unpack", "gather", "call"])
    calls = [n for n in world["nodes"] if n["kind"] == "call"]
    if kind == "call" and calls:
        for n in rng.sample(calls, min(len(calls), rng.randrange(1, 3))):
            faults["calls"][str(n["id"])] = dict(exc=rng.choice(["E1", "E2", "B1", "F1", "Z1", "CallError", "NodeError"]))
    elif kind in ("store", "mtime") and world["stores"]:
        names = sorted(world["stores"])
        op = "mtime" if kind == "mtime" else rng.choice(["read", "write", "write"])
        f = dict(store=rng.choice(names), op=op, exc=rng.choice(["E1", "OSError"]))
        if op == "write":
            f["when"] = rng.choice(["before", "after"])
        faults["stores"].append(f)
    elif kind == "unpack":
        for n in world["nodes"]:
            if n["kind"] == "unpack":
                prod = ref.by_id(world)[n["args"][0][1]]
                prod["ret"] = [prod["ret"][0], prod["ret"][1] + rng.choice([-1, 1])]
                world["bad_unpack"] = n["id"]
                break
    elif kind == "gather":
        # an unhashable member inside a set: the inserted gather_set call fails
        lst = [n for n in world["nodes"] if n["kind"] == "call" and n.get("ret", "val") == "val" and not n.get("store")
               and not n.get("writes")]
        if lst:
            victim = rng.choice(lst)
            victim["ret"] = ["list", 2]
            cons = dict(id=len(world["nodes"]) + 100, kind="call", args=[["S", [["n", victim["id"]], ["c", 1]]]],
                        kwargs=[], deps=[], scope=[], dur=0.0, ret="val", fname="g", depth=rng.randrange(-1, 7))
            world["nodes"].append(cons)
            world["output"] = ["n", cons["id"]]
            world["bad_gather"] = cons["id"]
    desc = dict(seed=seed, world=world, ops=[dict(op="run", cfg=cfg, faults=faults)], sched=sc,
                bare=rng.random() < 0.35, fault_kind=kind)
    if not desc["bare"] and rng.random() < 0.3:
        # the plan is built by two threads at once (Plan carries a lock for that): the world's builder and a second
        # thread that adds unrelated calls, gathers and sources of another registry to the same Plan
        desc["concurrent_build"] = dict(n=rng.randrange(2, 7), depth=rng.randrange(-1, 6),
                                        strategy=rng.choice([["rw", 0.2, 0.5], ["rw", 0.5, 0.5], ["pct", 3, 400], ["rw", 0.05, 0.3]]))
    return desc


def chain_of(stack_frame):
    from uberjob._util.traceback import TruncatedStackFrame

    out = []
    sf = stack_frame
    while sf is not None:
        if sf is TruncatedStackFrame:
            out.append("TRUNC")
            break
        out.append((sf.name, sf.path, sf.line))
        sf = sf.outer
    return out


def expected_chain(frames):
    out = list(frames[:LIMIT_FRAMES])
    if len(frames) > LIMIT_FRAMES:
        out.append("TRUNC")
    return out


def render_expected(chain, fn_name):
    lines = [f"An exception was raised in a symbolic call to {fn_name}.", "Symbolic traceback (most recent call last):"]
    for fr in reversed(chain):
        if fr == "TRUNC":
            lines.append("  ... truncated")
        else:
            lines.append(f'  File "{fr[1]}", line {fr[2]}, in {fr[0]}')
    return "\n".join(lines)


def build_concurrently(desc):
    """Build the world's Plan as the client of a simulation while a second simulated thread adds foreign nodes to the
    same Plan.  Returns (built, [(node, recorded frames)] of the foreign nodes, sim)."""
    import uberjob
    from model.stores import SimStore
    from simkit import prims, sched, shims

    cb = desc["concurrent_build"]
    world = desc["world"]
    sim = sched.Sim(machine.mix_seed(desc["seed"], "build"), strategy=tuple(cb["strategy"]), max_steps=400_000)
    holder, foreign = [], []

    def other():
        # (a blocking wait, not a busy one: under a priority-based strategy a spinning thread would starve the builder)
        sim.block(lambda: bool(holder) and holder[0].plan is not None, None, what="wait-for-plan")
        plan = holder[0].plan
        reg2 = uberjob.Registry()
        for k in range(cb["n"]):
            kind = ("source", "call", "gather", "call")[k % 4]

            def thunk():
                if kind == "source":
                    fr, node = B._frames(), reg2.source(plan, SimStore(f"foreign{k}"))
                elif kind == "call":
                    fr, node = B._frames(), plan.call(len, [k])
                else:
                    fr, node = B._frames(), plan.gather([plan.lit(k), k])
                foreign.append((node, fr))

            B._create(cb["depth"], thunk)
            sim.yield_("foreign-node")

    def client():
        t = prims.Thread(target=other)
        t.start()
        b = B.build(world, True, holder)
        t.join()
        return b

    shims.install(gran="line")
    try:
        built, exc = sim.run(client)
    finally:
        shims.uninstall()
    if exc is not None:
        raise exc
    return built, foreign, sim


def execute(prop, desc):
    import uberjob
    from uberjob._util import fully_qualified_name

    world = desc["world"]
    hist = machine.History(desc)
    hist.init_sources()
    tapes = desc.get("tapes") or {}
    built = None
    if desc.get("bare"):
        from simkit import shims

        shims.install_node_hash(desc["sched"].get("salt", 0))
        built = B.build_in_bare_thread(world)
    pre = []
    foreign = []
    if built is None and not desc.get("concurrent_build"):
        from simkit import shims

        shims.install_node_hash(desc["sched"].get("salt", 0))
        built = B.build(world)
    if desc.get("concurrent_build"):
        from simkit import shims

        shims.install_node_hash(desc["sched"].get("salt", 0))
        built, foreign, bsim = build_concurrently(desc)
        if built is None or bsim.hung is not None or bsim.thread_deaths:
            # (building does not block on anything in the code under test: treat this as the harness's own failure)
            raise sched.HarnessError(f"concurrent plan building did not finish: {bsim.hung or bsim.thread_deaths}")
    # right after building: every node carries the frames of the line that created it (whatever was created before it,
    # by whichever thread or generator)
    how = "built by two threads" if desc.get("concurrent_build") else ("built in a bare thread" if desc.get("bare") else "built")
    for key, fr in sorted(built.frames.items(), key=repr):
        if key[0] != "node" or ref.by_id(world)[key[1]]["kind"] == "item":
            continue
        got = chain_of(getattr(built.nodes[key[1]], "stack_frame", None))
        if got != expected_chain(fr):
            pre.append(O.V("wrong-creation-site", f"Plan {how}: node {key[1]} carries the symbolic traceback {got}, it was "
                                                  f"created at {expected_chain(fr)}"))
            break
    for node, fr in foreign:
        got = chain_of(getattr(node, "stack_frame", None))
        if not pre and got != expected_chain(fr):
            pre.append(O.V("wrong-creation-site", f"Plan {how}: a node created by the second thread carries {got}, it was "
                                                  f"created at {expected_chain(fr)}"))
            break
    rec = machine.run_op(hist, desc["ops"][0], 0, tape=tapes.get("0"), built=built)
    viol = list(pre)
    fired = {}
    if desc.get("concurrent_build"):
        fired["plan-built-by-two-threads"] = 1
    if isinstance(rec.exc, uberjob.CallError):
        e = rec.exc
        who = O.identify_error_call(rec)
        frames = None
        site = None
        b = rec.built
        if who[0] == "node":
            nid = who[1]
            frames = b.frames.get(("node", nid))
            site = f"creation of node {nid}"
            sfailed_mtime = any(ev[3] == "store-end" and ev[4] == "mtime" and ev[7] != "ok" for ev in rec.events)
            fired["attributed-" + ("mtime-query" if sfailed_mtime else ref.by_id(world)[nid]["kind"])] = 1
        elif who[0] in ("read", "write"):
            owner = R.store_owner(world).get(who[1])
            frames = b.frames.get(("add", owner))
            site = f"registry entry of node {owner} (store {who[1]})"
            kindn = ref.by_id(world)[owner]["kind"]
            fired["attributed-" + who[0] + ("-source" if kindn == "src" else "-stored")] = 1
        else:
            # a gather call inserted for a nested structure: it carries the frame of the enclosing creation
            g = b.plan.graph
            node = e.call
            hops = 0
            while node in g and id(node) not in b.ids and hops < 10:
                succ = [v for _, v, k in g.out_edges(node, keys=True) if type(k).__name__ != "Dependency"]
                if not succ:
                    break
                node = succ[0]
                hops += 1
            i = b.ids.get(id(node))
            if i is not None:
                frames = b.frames.get(("node", i))
                site = f"enclosing creation of node {i} (inserted {getattr(e.call.fn, '__name__', '?')})"
                fired["attributed-inserted-gather"] = 1
        if frames is not None:
            exp = expected_chain(frames)
            got = chain_of(e.call.stack_frame)
            depth_tag = "shallower" if len(frames) < LIMIT_FRAMES else ("equal" if len(frames) == LIMIT_FRAMES else "deeper")
            fired["stack-" + depth_tag + "-than-limit"] = 1
            if got != exp:
                viol.append(O.V("wrong-creation-site", f"CallError.call's symbolic traceback {got} != frames recorded at "
                                                       f"the {site}: {exp}"))
            else:
                want = render_expected(exp, fully_qualified_name(e.call.fn))
                if str(e) != want:
                    viol.append(O.V("wrong-rendering", f"str(CallError) is {str(e)!r}, expected {want!r}"))
        elif desc.get("fault_kind") == "call" and who[0] not in ("node", "read", "write"):
            viol.append(O.V("call-not-of-this-plan", f"only calls of the plan were made to fail, but CallError.call is "
                                                     f"{who!r} - not a call of the plan that was run"))
        else:
            fired["unattributable"] = 1
    elif rec.exc is None:
        fired["no-failure"] = 1
    elif not rec.aborted and rec.sim.hung is None:
        # only calls and store operations were made to fail: what run raises for them is a CallError
        viol.append(O.V("not-a-callerror", f"a call or store operation failed (Plan {how}) and run raised {rec.exc!r} "
                                           f"instead of CallError"))
    viol.extend(O.o_term(rec, world, hist)[:1])
    res = result(desc, hist, viol)
    for k, v in fired.items():
        res["stats"]["fired"][k] = res["stats"]["fired"].get(k, 0) + v
    return res

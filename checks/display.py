"""C20: the bundled console / HTML / IPython observers under the simulator with
their real update thread on virtual time.  Notifications come from real
simulated runs and from generated legal notification sequences issued by
several notifier threads."""
import contextlib
import copy
import io
import re

from checks import oracles as O
from checks.common import result, world_digest
from model import core, machine, ref, worldgen
from model.core import scope_value
from simkit import prims, sched, shims

KINDS = ["console", "html", "ipython"]
TITLES = {"stale": "Determining stale value stores", "run": "Running graph"}


# --------------------------------------------------------------------------
# instrumented subclasses (documented extension points _render / _output only)
# --------------------------------------------------------------------------
def make_observer(kind, log, intervals):
    from uberjob.progress._console_progress_observer import ConsoleProgressObserver
    from uberjob.progress._html_progress_observer import HtmlProgressObserver
    from uberjob.progress._ipython_progress_observer import IPythonProgressObserver

    base = {"console": ConsoleProgressObserver, "html": HtmlProgressObserver, "ipython": IPythonProgressObserver}[kind]

    class Instrumented(base):
        def _render(self, state, new_exception_index, exception_tuples, elapsed):
            sim = sched.current_sim()
            snap = snapshot_state(state)
            seq = sim.log("render", kind, repr(sorted(snap.items(), key=repr))[:0])
            out = super()._render(state, new_exception_index, exception_tuples, elapsed)
            rec = dict(seq=seq, snap=snap, elapsed=elapsed, out=out, emitted=False, now=sim.now,
                       n_exc=len(exception_tuples), new_exc=new_exception_index)
            if kind == "ipython":
                rec["tree"] = ipython_tree(self)
                rec["emitted"] = True  # the widgets are the display
            log["renders"].append(rec)
            return out

        def _output(self, value):
            for r in reversed(log["renders"]):
                if r["out"] is value:
                    r["emitted"] = True
                    break
            sched.current_sim().log("emit", kind)
            with contextlib.redirect_stdout(io.StringIO()):
                super()._output(value)

    kw = dict(initial_update_delay=intervals[0], min_update_interval=intervals[1], max_update_interval=intervals[2])
    if kind == "html":
        sink = log.setdefault("html_out", [])
        return Instrumented(sink.append, **kw)
    return Instrumented(**kw)


def snapshot_state(state):
    out = {}
    for section, scopes in state.items():
        for scope, s in scopes.items():
            out[(section, scope)] = (s.completed, s.failed, s.running, s.total)
    return out


def ipython_tree(obs):
    out = {}
    cache = obs._widget_cache or {}
    for key, w in cache.items():
        if len(key) >= 5 and key[0] == "section" and key[2] == "scope":
            section, scope, what = key[1], key[3], key[4]
            if what == "progress":
                out[(section, scope, "progress")] = (w.value, w.max, w.bar_style)
            elif what == "label":
                out[(section, scope, "label")] = w.value
    vbox = cache.get(())
    out["n_children"] = len(vbox.children) if vbox is not None else 0
    return out


# --------------------------------------------------------------------------
# fingerprints of one section in an emitted rendering
# --------------------------------------------------------------------------
def section_block(kind, rendering, section):
    if kind == "console":
        lines = rendering.splitlines()
        try:
            i = lines.index(f"{section}:")
        except ValueError:
            return None
        j = i + 1
        while j < len(lines) and lines[j].startswith("  "):
            j += 1
        return "\n".join(lines[i:j])
    if kind == "html":
        text = rendering.decode()
        m = re.search(r'<h3 class="mt-4">' + re.escape(TITLES[section]) + r"</h3>.*?</table>", text, re.S)
        return m.group(0) if m else None
    raise ValueError(kind)


def fresh_block(kind, section, scope_mapping, elapsed, intervals):
    """What a fresh observer of the same class renders for this section alone."""
    log = dict(renders=[])
    obs = make_observer(kind, log, intervals)
    state = {section: scope_mapping}
    ipd, real = _stub_display()
    try:
        out = type(obs).__mro__[1]._render(obs, state, 0, [], elapsed)
    finally:
        ipd.display = real
    if kind == "ipython":
        return {k: v for k, v in ipython_tree(obs).items() if k != "n_children"}
    return section_block(kind, out, section)


# --------------------------------------------------------------------------
# generators
# --------------------------------------------------------------------------
SCOPE_TOKENS = [
    ["a"], ["b"], [1], [2], [None], ["a", 1], ["a", "b"], [["enum", "RED"]], [["enum", "GREEN"]], [["enum", "BLUE"]],
    [["shape", "ROUND"]], [["tok", 1]], [["tok", 2]], [["tup", [1, "z"]]], [["tup", [2, "y"]]], [1.5], [["bool", 1]],
    ["a", ["enum", "RED"]], ["a", ["enum", "GREEN"]], [["fs", [1, 2]]], [["fs", [3]]], [], ["x.y.z"], [None, None],
    # values that compare fine with themselves but not with each other
    [["tup", ["shard", None]]], [["tup", ["shard", 3]]], [["tup", ["shard", "x"]]], [["tup", [["enum", "RED"]]]],
    [["tup", [["enum", "GREEN"]]]], [["dtn", 5]], [["dta", 7]], [["dtn", 9]], [["cplx", 1]], [["cplx", 2]],
    [["tup", [["tup", [1, None]], 2]]], [["tup", [["tup", [1, "k"]], 2]]], ["a", ["tup", [None]]], ["a", ["tup", [0]]],
]


def generate(prop, seed, tier):
    rng = worldgen.child_rng(seed, "c20")
    kind = rng.choice(KINDS)
    intervals = rng.choice([[3, 30, 300], [1, 1, 10], [3, 30, 60], [0.5, 2, 5], [10, 10, 10]])
    sc = worldgen.gen_sched(rng)
    if sc["gran"] == "opcode" and rng.random() < 0.5:
        sc["gran"] = "line"
    mode = "run" if rng.random() < 0.45 else "sequence"
    # (an update thread that wakes up every virtual second during a 700 s call legitimately takes many steps)
    desc = dict(seed=seed, kind=kind, intervals=intervals, sched=sc, mode=mode, max_steps=12_000_000)
    if mode == "run":
        registry = rng.random() < 0.4
        world = worldgen.gen_world(rng, registry=registry, n_min=3, n_max=10 if tier == "quick" else 16,
                                   p_unpack=0.0 if registry else 0.05, durs=(0.0, 1.0, 2.0, 7.0, 40.0, 400.0))
        cfg = worldgen.gen_cfg(rng, world, registry=registry)
        cfg["max_errors"] = rng.choice([0, 2, None])
        op = dict(op="run", cfg=cfg)
        if rng.random() < 0.4:
            op["faults"] = dict(calls=worldgen.gen_call_faults(rng, world, p_fail=0.2, excs=("E1", "E2")))
        desc.update(world=world, ops=[op])
    else:
        n_scopes = rng.randrange(1, 6)
        pool = SCOPE_TOKENS if rng.random() < 0.8 else [["a"], ["b"], [1], [2], ["a", 1]]
        scopes = []
        for _ in range(n_scopes):
            s = rng.choice(pool)
            if s not in scopes:
                scopes.append(s)
        sections = rng.choice([["run"], ["stale", "run"], ["run"]])
        items = []
        for section in sections:
            for s in scopes:
                if rng.random() < 0.8:
                    items.append(dict(section=section, scope=s, total=rng.randrange(1, 5)))
        if not items:
            items.append(dict(section="run", scope=scopes[0], total=2))
        n_threads = rng.randrange(1, 5)
        # each work unit: (item index, duration, outcome)
        work = []
        for idx, it in enumerate(items):
            for _ in range(it["total"] if rng.random() < 0.85 else rng.randrange(0, it["total"] + 1)):
                work.append([idx, rng.choice([0.0, 0.0, 0.5, 1.0, 5.0, 45.0, 700.0]),
                             "failed" if rng.random() < 0.2 else "completed"])
        if seed % 23 == 5:
            # many failures in one run (max_errors=None on a large plan): more than the display keeps tracebacks for -
            # every one of them still counts
            big = dict(section="run", scope=scopes[0], total=rng.choice([129, 140, 200]))
            items.append(big)
            work.extend([len(items) - 1, 0.0, "failed"] for _ in range(big["total"]))
        rng.shuffle(work)
        # stale section strictly before run section (as run does)
        work.sort(key=lambda w: 0 if items[w[0]]["section"] == "stale" else 1)
        desc.update(items=items, work=work, n_threads=n_threads,
                    pre_sleep=rng.choice([0.0, 0.0, 2.0, 40.0]), post_sleep=rng.choice([0.0, 0.0, 5.0, 100.0]))
    return desc


# --------------------------------------------------------------------------
def execute(prop, desc):
    if desc["mode"] == "run":
        return execute_run(prop, desc)
    return execute_sequence(prop, desc)


class NotifyLog:
    """Harness-side account of notifications (virtual time of each)."""

    def __init__(self, sim):
        self.sim = sim
        self.events = []   # (seq, now, kind, section, scope)

    def wrap(self, obs):
        log = self

        class Proxy:
            pass

        for name in ("increment_total", "increment_running", "increment_completed", "increment_failed"):
            orig = getattr(obs, name)

            def make(name, orig):
                def f(**kw):
                    seq = log.sim.log("notify", name[10:], kw.get("section"), repr(kw.get("scope")))
                    log.events.append((seq, log.sim.now, name[10:], kw.get("section"), kw.get("scope")))
                    return orig(**kw)

                return f

            setattr(obs, name, make(name, orig))
        return obs


def judge(desc, sim, obs, log, nlog, kind, intervals, aborted):
    out = []
    if sim.thread_deaths:
        tags = {}
        for _, name, e in sim.thread_deaths:
            if "TypeError" in e and "not supported between instances" in e:
                tags["unorderable_scope_values"] = True
        out.append(O.V("display-thread-died", f"a display thread died: {sim.thread_deaths}; the display stops updating "
                                              f"and never shows the final state", **tags))
        return out
    if sim.hung is not None:
        out.append(O.V("display-hang", f"observer did not shut down: {sim.hung['why']} {sim.hung['threads'][:3]}"))
        return out
    if aborted:
        return out
    if sim.leaked:
        out.append(O.V("display-thread-leak", f"update thread still alive after exit: {sim.leaked}"))
        return out
    state = obs._state.section_scope_mapping
    final = snapshot_state(state)
    last_touch = {}
    for seq, now, k, section, scope in nlog.events:
        last_touch[section] = seq
    emitted = [r for r in log["renders"] if r["emitted"]]
    total_elapsed = (emitted[-1]["elapsed"] if emitted else 0.0)
    for section, scopes in state.items():
        lt = last_touch.get(section)
        cands = [r for r in emitted if lt is None or r["seq"] > lt]
        if not cands:
            out.append(O.V("final-state-not-rendered", f"[{kind}] no rendering was emitted after the last notification "
                                                       f"in section {section!r} (final counts {_sec(final, section)})"))
            return out
        # counters the emitted renderings were computed from
        ok_counts = [r for r in cands if _sec(r["snap"], section) == _sec(final, section)]
        if not ok_counts:
            out.append(O.V("final-counts-not-rendered", f"[{kind}] renderings emitted after the last notification in "
                                                        f"{section!r} were computed from {_sec(cands[-1]['snap'], section)}, "
                                                        f"final counts are {_sec(final, section)}"))
            return out
        # content: self-consistency with what a fresh observer renders for this section
        try:
            if kind == "ipython":
                want = fresh_block(kind, section, copy.deepcopy(scopes), ok_counts[-1]["elapsed"], intervals)
                got = {k: v for k, v in log["renders"][-1]["tree"].items() if k != "n_children" and k[0] == section}
                want = {k: v for k, v in want.items() if k[0] == section}
                if got != want:
                    out.append(O.V("final-rendering-content", f"[ipython] widgets for {section!r} show {got}, a fresh "
                                                              f"observer shows {want} for the final state"))
                    return out
            else:
                want = fresh_block(kind, section, copy.deepcopy(scopes), ok_counts[-1]["elapsed"], intervals)
                texts = [section_block(kind, r["out"], section) for r in ok_counts]
                if want not in texts:
                    if kind == "console" and all(t is None for t in texts):
                        # the console observer does not repeat a finished section: accept if an earlier
                        # emission, computed from the final counts, showed it
                        earlier = [section_block(kind, r["out"], section) for r in emitted
                                   if _sec(r["snap"], section) == _sec(final, section)]
                        if want in earlier:
                            continue
                    out.append(O.V("final-rendering-content", f"[{kind}] section {section!r}: no emitted rendering computed "
                                                              f"from the final counts contains what a fresh observer "
                                                              f"renders for them: {want!r:.300} vs {texts[-1]!r:.300}"))
                    return out
        except Exception as e:
            out.append(O.V("render-raised", f"[{kind}] rendering the final state of {section!r} raised {e!r}"))
            return out
    # elapsed accounting: sum of weighted_elapsed == time during which something was running
    busy = 0.0
    running = 0
    prev = None
    t_last = None
    for seq, now, k, section, scope in nlog.events:
        if prev is not None and running > 0:
            busy += now - prev
        prev = now
        if k == "running":
            running += 1
        elif k in ("completed", "failed"):
            running -= 1
    if running > 0 and log["renders"]:
        t_end = max(r["now"] for r in log["renders"])
        if prev is not None and t_end > prev:
            busy += t_end - prev
    got = sum(s.weighted_elapsed for scopes in state.values() for s in scopes.values())
    if abs(got - busy) > 1e-6 * max(1.0, busy):
        out.append(O.V("elapsed-accounting", f"[{kind}] elapsed attributed to scopes sums to {got}, calls were running "
                                             f"for {busy} virtual seconds"))
    return out


def _sec(snap, section):
    return sorted(((k[1], v) for k, v in snap.items() if k[0] == section), key=repr)


def _stub_display():
    import IPython.display as ipd

    real = ipd.display
    ipd.display = lambda *a, **k: None
    return ipd, real


def execute_sequence(prop, desc):
    kind, intervals = desc["kind"], desc["intervals"]
    sc = desc["sched"]
    seed = machine.mix_seed(desc["seed"], "seq")
    tapes = desc.get("tapes") or {}
    strategy = ("tape", tapes["0"]) if "0" in tapes else tuple(sc["strategy"])
    sim = sched.Sim(seed, strategy=strategy, max_steps=desc.get("max_steps", 12_000_000))
    log = dict(renders=[])
    holder = {}
    items = desc["items"]

    def client():
        obs = holder["obs"] = make_observer(kind, log, intervals)
        nlog = holder["nlog"] = NotifyLog(sim)
        nlog.wrap(obs)
        with obs:
            if desc["pre_sleep"]:
                sim.sleep(desc["pre_sleep"])
            for it in items:
                obs.increment_total(section=it["section"], scope=tuple(scope_value(t) for t in it["scope"]),
                                    amount=it["total"])
            queue = list(desc["work"])
            qlock = prims.Lock()

            def worker():
                while True:
                    with qlock:
                        if not queue:
                            return
                        idx, dur, outcome = queue.pop(0)
                    it = items[idx]
                    scope = tuple(scope_value(t) for t in it["scope"])
                    obs.increment_running(section=it["section"], scope=scope)
                    sim.sleep(dur, "work")
                    if outcome == "failed":
                        try:
                            raise core.E1(f"work {idx} failed")
                        except core.E1 as e:
                            obs.increment_failed(section=it["section"], scope=scope, exception=e)
                    else:
                        obs.increment_completed(section=it["section"], scope=scope)

            # stale section first, then run (two phases, like uberjob.run)
            for phase in ("stale", "run"):
                phase_work = [w for w in desc["work"] if items[w[0]]["section"] == phase]
                if not phase_work:
                    continue
                queue[:] = phase_work
                threads = [prims.Thread(target=worker) for _ in range(desc["n_threads"])]
                for t in threads:
                    t.start()
                for t in threads:
                    t.join()
            if desc["post_sleep"]:
                sim.sleep(desc["post_sleep"])

    ipd, real_display = _stub_display()
    shims.reset_node_table()
    shims.install(gran=sc.get("gran", "line"))
    try:
        res, exc = sim.run(client)
    finally:
        shims.uninstall()
        ipd.display = real_display
    viol = []
    aborted = sim.abort_reason not in (None, "end")
    if exc is not None and not isinstance(exc, sched.SimAbort):
        viol.append(O.V("display-raised", f"[{kind}] observer raised into the notifying code: {exc!r}"))
    if not viol and "obs" in holder:
        viol = judge(desc, sim, holder["obs"], log, holder["nlog"], kind, intervals, aborted)
    return _result(desc, sim, viol, kind, log)


def _result(desc, sim, viol, kind, log):
    import hashlib

    wd = hashlib.sha256(repr(sorted((k, repr(v)) for k, v in desc.items() if k != "tapes")).encode()).hexdigest()[:12]
    il = sim.interleaving_digest()
    n_emit = sum(1 for r in log["renders"] if r["emitted"])
    st = dict(runs=1, sub=0, steps=sim.steps, switches=sim.switches, preemptions=sim.preemptions, decisions=len(sim.tape),
              vtime=sim.now, max_steps_run=sim.steps, fired={"observer-" + kind: 1, "mode-" + desc["mode"]: 1},
              probes=dict(sim.probes, renders=len(log["renders"]), emissions=n_emit, **{"clock-jumps": sim.clock_jumps}),
              strategies=[sim.strategy.name], grans=[desc["sched"].get("gran")],
              nontrivial_keys=[wd + ":" + il] if (len(log["renders"]) >= 2 or sim.preemptions) else [],
              interleavings=[il], states=[wd])
    return dict(digest=sim.digest(), violations=viol, stats=st, tapes={"0": sim.tape} if viol else None)


def execute_run(prop, desc):
    from uberjob.progress import Progress

    kind, intervals = desc["kind"], desc["intervals"]
    log = dict(renders=[])
    holder = {}
    hist = machine.History(desc)
    hist.init_sources()
    tapes = desc.get("tapes") or {}
    op = copy.deepcopy(desc["ops"][0])

    def hook(sim, rt, built, kwargs):
        def create():
            obs = holder["obs"] = make_observer(kind, log, intervals)
            nlog = holder["nlog"] = NotifyLog(sim)
            nlog.wrap(obs)
            return obs

        kwargs["progress"] = Progress(create)

    op["cfg"]["progress"] = None
    ipd, real_display = _stub_display()
    try:
        rec = machine.run_op(hist, op, 0, tape=tapes.get("0"), sim_hook=hook)
    finally:
        ipd.display = real_display
    viol = []
    if "obs" in holder:
        viol = judge(desc, rec.sim, holder["obs"], log, holder["nlog"], kind, intervals, rec.aborted)
    r = _result(desc, rec.sim, viol, kind, log)
    return r

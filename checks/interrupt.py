"""C17: KeyboardInterrupt in the caller during the k-th call, for every k of
each sampled (world, configuration, schedule)."""
import copy

from checks import oracles as O
from checks import oracles_reg as R
from checks.common import result
from model import machine, ref, worldgen

SIZES = {"quick": dict(n_min=3, n_max=9), "thorough": dict(n_min=3, n_max=16)}
K_CAP = {"quick": 14, "thorough": 40}


def generate(prop, seed, tier):
    rng = worldgen.child_rng(seed, "c17")
    registry = rng.random() < 0.4
    kw = dict(SIZES[tier])
    world = worldgen.gen_world(rng, registry=registry, p_unpack=0.0 if registry else 0.08,
                               durs=(0.0, 1.0, 1.0, 2.0, 5.0, 30.0), scopes="plain", p_dep=0.3, **kw)
    cfg = worldgen.gen_cfg(rng, world, registry=registry, retry_p=0.15)
    cfg["max_errors"] = rng.choice([0, 0, 2, None])
    cfg["progress"] = "rec"
    if rng.random() < 0.12:
        # a bundled display whose sink is broken: Ctrl-C still comes out as KeyboardInterrupt
        cfg["progress"] = "bundled-sinkfail"
        cfg["sink_fails_from"] = rng.choice([1, 1, 2])
    elif rng.random() < 0.14:
        # a bundled display that works (it owns an update thread that has to be stopped and joined on the way out)
        cfg["progress"] = "bundled-ok"
    sc = worldgen.gen_sched(rng)
    op = dict(op="run", cfg=cfg)
    if rng.random() < 0.25:
        op["faults"] = dict(calls=worldgen.gen_call_faults(rng, world, p_fail=0.15, excs=("E1", "B1")))
    # k counts call starts, or (registry worlds, half of them) every operation start: modified-time queries of the
    # stale check, store reads and writes, calls - the interrupt then also lands in the stale-check pool and in store writes
    k_mode = "op" if registry and rng.random() < 0.5 else "call"
    return dict(seed=seed, world=world, ops=[op], sched=sc, tier=tier, registry=registry, k_mode=k_mode)


def _run(desc, k):
    d = desc
    hist = machine.History(d)
    hist.init_sources()
    op = copy.deepcopy(d["ops"][0])
    if k is not None:
        op.setdefault("faults", {})["interrupt_at_op" if d.get("k_mode") == "op" else "interrupt_at"] = k
    tapes = d.get("tapes") or {}
    rec = machine.apply_op(hist, op, 0, tape=tapes.get("0"))
    return hist, rec


def execute(prop, desc):
    viol = []
    hists = []
    only = desc.get("only_k")
    if only is None:
        hist0, rec0 = _run(desc, None)
        hists.append(hist0)
        cap = K_CAP[desc.get("tier", "quick")]
        if desc.get("k_mode") == "op":
            n = rec0.rt.op_starts
            # every k when there are few operations, otherwise an evenly spread selection (first and last included)
            ks = list(range(1, n + 1)) if n <= cap + 6 else sorted({1 + (i * (n - 1)) // (cap + 5) for i in range(cap + 6)})
        else:
            K = min(rec0.rt.call_starts, cap)
            ks = list(range(1, K + 1))
        viol.extend(O.o_term(rec0, hist0.world, hist0))
    else:
        ks = [only]
    found_k = None
    if not viol:
        for k in ks:
            hist, rec = _run(desc, k)
            hists.append(hist)
            v = o_interrupt(rec, hist.world, hist)
            if not v and desc.get("registry") and rec.sim.hung is None:
                # repair clause: the next run from the surviving stores is correct
                follow = dict(op="run", cfg=dict(desc["ops"][0]["cfg"], progress="rec"))
                rec2 = machine.apply_op(hist, follow, 1 + k)
                v = R.o_fromscratch(rec2, hist.world, hist) + O.o_term(rec2, hist.world, hist)
                if rec2.exc is not None and not (desc["ops"][0].get("faults") or {}).get("calls"):
                    v.append(O.V("followup-failed", f"the run after the interrupted run failed: {rec2.exc!r}"))
            if v:
                for x in v:
                    x["tags"]["k"] = k
                viol.extend(v)
                found_k = k
                break
    # merge stats over all sub-runs
    res = None
    for h in hists:
        r = result(desc, h, [])
        if res is None:
            res = r
        else:
            for key in ("runs", "steps", "switches", "preemptions", "decisions", "vtime"):
                res["stats"][key] += r["stats"][key]
            res["stats"]["max_steps_run"] = max(res["stats"]["max_steps_run"], r["stats"]["max_steps_run"])
            for key in ("nontrivial_keys", "interleavings", "states", "strategies"):
                res["stats"][key].extend(r["stats"][key])
            for fk, fv in r["stats"]["fired"].items():
                res["stats"]["fired"][fk] = res["stats"]["fired"].get(fk, 0) + fv
            for fk, fv in r["stats"]["probes"].items():
                res["stats"]["probes"][fk] = res["stats"]["probes"].get(fk, 0) + fv
    import hashlib

    res["digest"] = hashlib.sha256("".join(h.h.hexdigest() for h in hists).encode()).hexdigest()
    res["violations"] = viol
    res["stats"]["sub"] = len(ks)
    if viol:
        res["tapes"] = {"0": hists[-1].records[0].sim.tape}
        res["pin"] = {"only_k": found_k}
    return res


def o_interrupt(rec, world, hist):
    out = []
    sim = rec.sim
    ix = O.index(rec)
    tags = {"interrupt": True, "during_pool_startup": O._interrupt_during_startup(rec),
            "inside_thread_start_after_spawn": O._interrupt_inside_started_wait(rec)}
    delivered = ix.interrupt_seq
    if delivered is None:
        sim.probe("interrupt-not-delivered")
        return out
    # premise: calls were executing when the interrupt arrived
    inflight = 0
    for ev in rec.events:
        if ev[0] > delivered:
            break
        if ev[3] in ("call-start", "store-start"):
            inflight += 1
        elif ev[3] in ("call-end", "store-end"):
            inflight -= 1
    if inflight <= 0:
        sim.probe("interrupt-delivered-idle")
        return out
    sim.probe("interrupt-delivered-busy")
    if tags["during_pool_startup"]:
        sim.probe("interrupt-during-pool-startup")
    if sim.hung is not None:
        out.append(O.V("hang-after-interrupt", f"run did not terminate after KeyboardInterrupt: {sim.hung['why']}; "
                                               f"threads: {sim.hung['threads'][:4]}", **tags))
        return out
    if not isinstance(rec.exc, KeyboardInterrupt):
        out.append(O.V("interrupt-not-propagated", f"run {'returned' if rec.exc is None else 'raised ' + repr(rec.exc)} "
                                                   f"instead of propagating KeyboardInterrupt", **tags))
        return out
    post = [ev[0] for ev in rec.events if ev[3] == "post-interrupt-op"]
    if post:
        s = post[0]
        per_thread = {}
        for ev in rec.events:
            if ev[0] > s and ev[3] in ("call-start", "store-start"):
                att = ev[5] if ev[3] == "call-start" else ev[6]
                if att == 1:
                    per_thread[ev[2]] = per_thread.get(ev[2], 0) + 1
        bad = {t: c for t, c in per_thread.items() if c > 1}
        if bad:
            out.append(O.V("work-after-interrupt", f"after the interrupt reached the caller, worker(s) {bad} started more "
                                                   f"than one further call", **tags))
            return out
    # calls already executing run to completion: none of them ends with the caller's KeyboardInterrupt
    injected_ki = {int(k) for k, f in ((rec.op.get("faults") or {}).get("calls") or {}).items()
                   if f.get("exc") == "KeyboardInterrupt"}
    for ev in rec.events:
        if ev[3] == "call-end" and ev[6] != "ok" and ev[7] == "KeyboardInterrupt" and ev[4] not in injected_ki:
            out.append(O.V("call-interrupted", f"the caller's KeyboardInterrupt was raised inside call {ev[4]} while it was "
                                               f"executing: the call did not run to completion", **tags))
            return out
        if ev[3] == "store-end" and ev[7] != "ok" and ev[8] == "KeyboardInterrupt":
            out.append(O.V("call-interrupted", f"the caller's KeyboardInterrupt was raised inside store operation "
                                               f"{ev[4]} {ev[5]} while it was executing", **tags))
            return out
    # every started call ran to completion, before run returned
    for nid, sts in ix.starts.items():
        if len(ix.ends.get(nid, ())) != len(sts):
            out.append(O.V("call-abandoned", f"call {nid} was started but did not finish", **tags))
            return out
    t = O.o_term(rec, world, hist)
    if t:
        for x in t:
            x["tags"].update(tags)
        return t
    for o in rec.observers:
        kinds = [r[1] for r in o.records]
        if kinds.count("exit") != 1 or kinds[-1] != "exit":
            out.append(O.V("observer-not-exited", f"progress observer was not exited exactly once: ...{kinds[-3:]}", **tags))
            return out
    return out

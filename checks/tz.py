"""C18: staleness depends only on instants.  The same store snapshot is
examined by runs under several (process TZ, rendering of each modified time
and of fresh_time) variants; every variant must rebuild exactly the
out-of-date set computed on the integer instants."""
import copy
import datetime as dt
import shutil
import tempfile
import zoneinfo

from checks import oracles as O
from checks import oracles_reg as R
from checks.common import result
from checks.history import gen_history, stress_stale_check
from model import machine, worldgen

ZONES = ["UTC", "America/New_York", "Europe/London", "Asia/Tokyo", "Asia/Kolkata", "Australia/Lord_Howe",
         "Pacific/Chatham", "America/St_Johns", "America/Sao_Paulo", "Africa/Casablanca"]
AWARE = ["aware-utc", "aware-local", ["offset", 330], ["offset", -480], ["offset", 765], ["zone", "Asia/Tokyo"],
         ["zone", "America/New_York"], ["zone", "Australia/Lord_Howe"]]
_TRANS = {}


def transitions(zone):
    """UTC instants in 2023-2025 at which the zone's UTC offset changes:
    [(instant, delta_seconds)] (delta < 0: fall back, a repeated interval)."""
    if zone in _TRANS:
        return _TRANS[zone]
    z = zoneinfo.ZoneInfo(zone)
    out = []
    t = int(dt.datetime(2023, 1, 1, tzinfo=dt.timezone.utc).timestamp())
    end = int(dt.datetime(2025, 12, 31, tzinfo=dt.timezone.utc).timestamp())
    prev = dt.datetime.fromtimestamp(t, z).utcoffset()
    step = 1800
    while t < end:
        t += step
        off = dt.datetime.fromtimestamp(t, z).utcoffset()
        if off != prev:
            lo, hi = t - step, t
            while hi - lo > 1:
                mid = (lo + hi) // 2
                if dt.datetime.fromtimestamp(mid, z).utcoffset() == prev:
                    lo = mid
                else:
                    hi = mid
            out.append((hi, int((off - prev).total_seconds())))
            prev = off
    _TRANS[zone] = out
    return out


def generate(prop, seed, tier):
    rng = worldgen.child_rng(seed, "c18")
    desc, _ = gen_history(seed, tier, n_ops=(1, 5), allow=("run", "update", "delete", "fresh"),
                          genkw=dict(durs=(0.0, 1.0, 30.0, 600.0), p_stored=0.5))
    # insert clock advances so that modified times spread over minutes / hours
    ops = []
    for op in desc["ops"]:
        if rng.random() < 0.6:
            ops.append(dict(op="advance", seconds=rng.choice([1, 30, 300, 1800, 3000, 3700, 7300])))
        ops.append(op)
    desc["ops"] = ops
    zone = rng.choice(ZONES)
    tr = transitions(zone)
    if tr and rng.random() < 0.8:
        inst, delta = rng.choice([x for x in tr if x[1] < 0] or tr) if rng.random() < 0.7 else rng.choice(tr)
        epoch = inst - rng.choice([5, 60, 600, 2000, 3500, 5000, 9000])
    else:
        epoch = int(dt.datetime(2024, rng.randrange(1, 13), rng.randrange(1, 28), rng.randrange(24),
                                tzinfo=dt.timezone.utc).timestamp())
    desc["epoch"] = float(epoch)
    desc["zone"] = zone
    if tr and rng.random() < 0.5:
        # touch the stores: instants placed around the transition, some exactly one DST shift apart (the same
        # wall-clock reading twice in a fall-back)
        names0 = sorted(desc["world"]["stores"])
        shift = abs(delta) if "delta" in dir() and delta else 3600
        base = (inst - epoch) if "inst" in dir() else 0
        offs, used = {}, set()
        # wall-clock readings that occur twice: w (first pass) and w + shift (second pass) denote different instants
        firsts = [-shift + 1, -shift // 2, -61, -7, -1]
        pool = firsts + [w + shift for w in firsts] + [-shift - 5, shift + 5, 0, 1]
        for nm in names0:
            for _ in range(20):
                o = base + rng.choice(pool) + rng.choice([0, 0, 0, 0.25, 13])
                if o not in used:
                    used.add(o)
                    offs[nm] = o
                    break
        desc["ops"].insert(len(desc["ops"]) - 1, dict(op="retime", offsets=offs))
    names = sorted(desc["world"]["stores"])
    files = ["file", "file", "file:path-source", "file:path-source-optional", "file:pickle", "file:json", "file:text",
             "file:binary", "file:touch", "file:helper+pathlib", "file:pickle+pathlib", "file:path-source+pathlib"]
    # (aware renderings: the fixed list plus arbitrary UTC offsets in whole minutes)
    aware = AWARE + [["offset", rng.randrange(-12 * 60, 14 * 60 + 1)] for _ in range(3)]
    variants = [dict(tz="UTC", renders={n: "aware-utc" for n in names}, fresh_render="aware-utc")]
    for _ in range(3 if tier == "quick" else 5):
        tz = rng.choice([zone, zone, rng.choice(ZONES)])
        style = rng.choice(["all-naive", "mixed", "mixed", "all-aware", "file", "same-zone"])
        # (same-zone: every time is aware and carries the very same DST-observing tzinfo object - the zone around
        #  whose transition the instants were placed; Python then compares wall-clock fields only)
        zname = zone if zone != "UTC" else rng.choice(["America/New_York", "Europe/London", "Australia/Lord_Howe"])
        renders = {}
        for n in names:
            if style == "all-naive":
                renders[n] = "naive-local" if rng.random() < 0.7 else "naive-gap"
            elif style == "file":
                renders[n] = rng.choice([rng.choice(files), rng.choice(files), "naive-local"])
            elif style == "all-aware":
                renders[n] = rng.choice(aware)
            elif style == "same-zone":
                renders[n] = ["zone", zname] if rng.random() < 0.85 else rng.choice(aware)
            else:
                renders[n] = rng.choice(["naive-local", "naive-gap", rng.choice(files), rng.choice(aware),
                                         [rng.choice(["mts", "lit"]), rng.choice(["naive-local", rng.choice(aware)])]])
        fr = rng.choice(["naive-local", "naive-gap", rng.choice(aware)])
        if style == "same-zone" and rng.random() < 0.7:
            fr = ["zone", zname]
        variants.append(dict(tz=tz, renders=renders, fresh_render=fr))
    desc["variants"] = variants
    if rng.random() < 0.35:
        # conversions of the times happen inside the multi-threaded stale check: stress that phase in the variant runs
        if not any(op["op"] == "fresh" for op in desc["ops"]) and rng.random() < 0.7:
            desc["ops"].insert(len(desc["ops"]) - 1, dict(op="fresh"))
        stress_stale_check(desc, rng)
    # the history prefix runs with aware-utc everywhere (any legal form would do)
    for op in desc["ops"]:
        if op["op"] == "run":
            op["cfg"]["renders"] = {n: "aware-utc" for n in names}
            op["cfg"]["fresh_render"] = "aware-utc"
            op["cfg"]["tz"] = "UTC"
    return desc


def execute(prop, desc):
    hist = machine.History(desc)
    world = hist.world
    hist.init_sources()
    tapes = desc.get("tapes") or {}
    viol = []
    last = len(desc["ops"]) - 1
    for idx, op in enumerate(desc["ops"][:-1]):
        machine.apply_op(hist, op, idx)
    op = desc["ops"][-1]
    st0 = (hist.disk.snapshot(), hist.fresh, dict(hist.src_version))
    scratch = tempfile.mkdtemp(prefix="verif-c18-", dir="/dev/shm")
    fired = {}
    try:
        variants = desc["variants"]
        if desc.get("only_variant") is not None:
            variants = [variants[desc["only_variant"]]]
        decisions = []
        for vi, var in enumerate(variants):
            hist.disk.restore(st0[0])
            hist.fresh = st0[1]
            hist.src_version = dict(st0[2])
            vop = copy.deepcopy(op)
            vop["cfg"].update(tz=var["tz"], renders=var["renders"], fresh_render=var["fresh_render"], scratch=scratch,
                              retry=None, max_errors=0)
            rec = machine.run_op(hist, vop, last + vi, tape=tapes.get(str(last + vi)))
            kinds = {(r if isinstance(r, str) else r[0]).split(":")[0] for r in var["renders"].values()}
            for r in var["renders"].values():
                if isinstance(r, str) and r.startswith("file:"):
                    fired["via-" + r.split(":")[1].split("+")[0]] = fired.get("via-" + r.split(":")[1].split("+")[0], 0) + 1
            tag = "tz=" + ("UTC" if var["tz"] == "UTC" else "non-UTC") + ";" + "+".join(sorted(kinds))
            fired[tag] = fired.get(tag, 0) + 1
            v = R.o_exact(rec, world, hist)
            if rec.exc is not None and not v:
                v = [O.V("tz-run-failed", f"run failed under variant {var}: {rec.exc!r} / {rec.exc.__cause__!r}")]
            written = sorted(ev[5] for ev in rec.events if ev[3] == "store-effect")
            decisions.append(written)
            if not v and decisions[0] != written:
                v = [O.V("decision-differs", f"variant {var['tz']}/{var['renders']} rewrote {written}, the all-aware-UTC "
                                             f"variant rewrote {decisions[0]}")]
            if v:
                for x in v:
                    x["tags"].update(variant=vi, tz=var["tz"], zone=desc["zone"])
                    x["msg"] = f"[TZ={var['tz']} renders={var['renders']} fresh={var['fresh_render']}] " + x["msg"]
                viol.extend(v)
                break
    finally:
        shutil.rmtree(scratch, ignore_errors=True)
    res = result(desc, hist, viol)
    for k, v in fired.items():
        res["stats"]["fired"][k] = res["stats"]["fired"].get(k, 0) + v
    if viol:
        res["pin"] = {"only_variant": viol[0]["tags"]["variant"]} if desc.get("only_variant") is None else {}
    return res

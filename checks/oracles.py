"""Oracles over operation records.  Each restates the property text; none
looks at how uberjob implements it (DESIGN 5, 12)."""
import gc

from model import ref
from model.core import canon, typed_equal
from model.machine import retry_attempts, snapshot_diff


def V(oracle, msg, **tags):
    return {"oracle": oracle, "msg": msg, "tags": tags}


class Ix:
    """Index of one run's event log."""

    def __init__(self, rec):
        self.starts = {}     # nid -> [(seq, att)]
        self.ends = {}       # nid -> [(seq, att, status, info)]
        self.sstarts = {}    # (op, name) -> [(seq, att)]
        self.sends = {}      # (op, name) -> [(seq, att, status, info)]
        self.effects = {}    # name -> [seq]
        self.obs = {}        # tag -> [(seq, kind, ...)]
        self.run_enter = None
        self.run_exit = None
        self.run_status = None
        self.interrupt_seq = None
        self.cut = None
        self.tids = {}       # seq -> tid
        for ev in rec.events:
            seq, now, tid, kind = ev[:4]
            d = ev[4:]
            if kind == "call-start":
                self.starts.setdefault(d[0], []).append((seq, d[1]))
                self.tids[seq] = tid
            elif kind == "call-end":
                self.ends.setdefault(d[0], []).append((seq, d[1], d[2], d[3] if len(d) > 3 else None))
                self.tids[seq] = tid
            elif kind == "store-start":
                self.sstarts.setdefault((d[0], d[1]), []).append((seq, d[2]))
                self.tids[seq] = tid
            elif kind == "store-end":
                self.sends.setdefault((d[0], d[1]), []).append((seq, d[2], d[3], d[4] if len(d) > 4 else None))
                self.tids[seq] = tid
            elif kind == "store-effect":
                self.effects.setdefault(d[1], []).append(seq)
            elif kind == "obs":
                self.obs.setdefault(d[0], []).append((seq,) + tuple(d[1:]))
            elif kind == "run-enter":
                self.run_enter = seq
            elif kind == "run-exit":
                self.run_exit = seq
                self.run_status = d[0]
            elif kind == "interrupt-delivered":
                self.interrupt_seq = seq
            elif kind == "cut":
                self.cut = (seq,) + tuple(d)

    def ok_end(self, nid):
        for seq, att, status, info in self.ends.get(nid, ()):
            if status == "ok":
                return seq
        return None

    def failed(self, nid):
        """The call ended in failure and never succeeded."""
        e = self.ends.get(nid, ())
        return bool(e) and all(s != "ok" for _, _, s, _ in e)

    def final_fail_seq(self, nid):
        e = self.ends.get(nid, ())
        return max(seq for seq, _, s, _ in e) if e else None

    def executed(self):
        return set(self.starts)

    def sok_end(self, key):
        for seq, att, status, info in self.sends.get(key, ()):
            if status == "ok":
                return seq
        return None


def index(rec):
    ix = getattr(rec, "_ix", None)
    if ix is None:
        ix = rec._ix = Ix(rec)
    return ix


def world_calls(world):
    return {n["id"] for n in world["nodes"] if n["kind"] == "call"}


# --------------------------------------------------------------------------
# C01
# --------------------------------------------------------------------------
def o_order(rec, world, hist=None):
    out = []
    ix = index(rec)
    nodes = ref.by_id(world)
    if rec.built.registry is None:
        ds = ref.deps_star(world)
        for nid, sts in ix.starts.items():
            for seq, att in sts:
                for d in ds[nid]:
                    if nodes[d]["kind"] != "call":
                        continue
                    e = ix.ok_end(d)
                    if e is None or e > seq:
                        out.append(V(
                            "start-after-deps",
                            f"call {nid} (attempt {att}) started at seq {seq} before its dependency {d} "
                            f"finished successfully (ok end: {e})",
                        ))
                        return out
        return out
    # registry worlds: ancestor relation of the captured physical plan
    phys = rec.physical
    if phys is None:
        return out
    anc = physical_ancestors(phys)
    for key in phys["nodes"]:
        sts = _starts_of(ix, key)
        if not sts:
            continue
        first = min(s for s, _ in sts)
        for a in anc[key]:
            if a[0] not in ("call", "read", "write"):
                continue
            e = _ok_end_of(ix, a)
            if e is None or e > first:
                out.append(V(
                    "start-after-deps",
                    f"physical node {key} started at seq {first} before its ancestor {a} finished (ok end: {e})",
                ))
                return out
    return out


def _starts_of(ix, key):
    if key[0] == "call":
        return ix.starts.get(key[1], [])
    if key[0] in ("read", "write"):
        return ix.sstarts.get((key[0], key[1]), [])
    return []


def _ok_end_of(ix, key):
    if key[0] == "call":
        return ix.ok_end(key[1])
    return ix.sok_end((key[0], key[1]))


def physical_ancestors(phys):
    preds = phys["preds"]
    memo = {}

    def anc(k):
        if k in memo:
            return memo[k]
        memo[k] = s = set()
        for p in preds.get(k, ()):
            s.add(p)
            s |= anc(p)
        return s

    return {k: anc(k) for k in preds}


# --------------------------------------------------------------------------
# C02
# --------------------------------------------------------------------------
def expected(rec, world, hist):
    cache = getattr(rec, "_expected", None)
    if cache is None:
        srcs = rec.extra.get("sources_at_start")
        seen, stores = ref.evaluate(world, rec.built.objs, sources=srcs)
        cache = rec._expected = (seen, stores)
    return cache


def o_value(rec, world, hist=None, check_output=True):
    out = []
    ix = index(rec)
    for oracle, msg in rec.rt.violations:
        out.append(V(oracle, msg))
    if out:
        return out
    if rec.exc is not None:
        return out
    try:
        seen, stores = expected(rec, world, hist)
    except ref.Missing:
        return out
    nodes = ref.by_id(world)
    if check_output and not rec.op.get("cfg", {}).get("dry_run"):
        wants = rec.op.get("cfg", {}).get("output", True) and world.get("output") is not None
        exp = ref.eval_output(world, seen, rec.built.objs) if wants else None
        if not typed_equal(rec.result, exp):
            out.append(V("output-value", f"run returned {canon(rec.result)[:300]}, direct evaluation gives {canon(exp)[:300]}"))
            return out
    for nid, ends in ix.ends.items():
        n = nodes[nid]
        for seq, att, status, info in ends:
            if status != "ok":
                continue
            raw = stores[n["store"]] if n.get("store") else seen[nid]
            if info != canon(raw):
                out.append(V("call-value", f"call {nid} computed {info[:200]}, direct evaluation gives {canon(raw)[:200]}"))
                return out
    return out


# --------------------------------------------------------------------------
# C04
# --------------------------------------------------------------------------
def o_once(rec, world, hist=None):
    out = []
    ix = index(rec)
    nodes = ref.by_id(world)
    limit = retry_attempts(rec.op.get("cfg", {}).get("retry"))
    for nid, sts in ix.starts.items():
        atts = [a for _, a in sts]
        if len(set(atts)) != len(atts):
            out.append(V("executed-twice", f"call {nid} has two starts for one attempt: {sts}"))
            return out
        if len(atts) > limit:
            out.append(V("too-many-attempts", f"call {nid} started {len(atts)} times with retry limit {limit}"))
            return out
        ok = ix.ok_end(nid)
        if ok is not None and any(s > ok for s, _ in sts):
            out.append(V("rerun-after-success", f"call {nid} started again after it had succeeded"))
            return out
        if len(ix.ends.get(nid, ())) > len(atts):
            out.append(V("executed-twice", f"call {nid}: more ends than starts"))
            return out
    if rec.built.registry is None and rec.exc is None and not rec.aborted:
        wants = rec.op.get("cfg", {}).get("output", True) and world.get("output") is not None
        need = set()
        if wants:
            ds = ref.deps_star(world)
            for r in ref.spec_refs(world["output"]):
                need.add(r)
                need |= ds[r]
        need = {i for i in need if nodes[i]["kind"] == "call"}
        got = {nid for nid in ix.starts if ix.ok_end(nid) is not None}
        if got != need or set(ix.starts) != need:
            out.append(V(
                "needed-set",
                f"executed calls {sorted(ix.starts)} (succeeded {sorted(got)}), the output depends on exactly {sorted(need)}",
            ))
    return out


# --------------------------------------------------------------------------
# C06
# --------------------------------------------------------------------------
def _failed_calls(ix):
    return {nid for nid in ix.ends if ix.failed(nid)}


def identify_error_call(rec):
    """Map CallError.call to ('call', nid) / ('read'|'write', store) /
    ('mtime', nid) / None."""
    e = rec.exc
    call = getattr(e, "call", None)
    if call is None:
        return None
    i = rec.built.ids.get(id(call))
    fn = getattr(call, "fn", None)
    q = getattr(fn, "__qualname__", "")
    if i is not None:
        return ("node", i)
    if q.endswith(".read") or q.endswith(".write"):
        op = q.rsplit(".", 1)[1]
        name = None
        if rec.physical is not None:
            k = rec.physical["by_node"].get(id(call))
            if k is not None:
                name = k[1]
        return (op, name)
    return ("other", q)


def o_fail(rec, world, hist=None):
    import uberjob

    out = []
    ix = index(rec)
    nodes = ref.by_id(world)
    ds = ref.deps_star(world)
    failed = _failed_calls(ix)
    sfailed = {k for k, e in ix.sends.items() if e and all(s != "ok" for _, _, s, _ in e)}
    if rec.aborted:
        return out
    # (1) nothing downstream of a failed call starts
    for nid in ix.starts:
        bad = [f for f in failed if f in ds[nid]]
        if bad:
            out.append(V("downstream-of-failure", f"call {nid} started although its dependency {bad[0]} failed"))
            return out
    any_failure = bool(failed or sfailed)
    interrupted = isinstance(rec.exc, KeyboardInterrupt) and rec.rt.fired.get("interrupt")
    if interrupted:
        return out
    # (2) run raises CallError iff something failed
    if any_failure and not isinstance(rec.exc, uberjob.CallError):
        out.append(V("no-callerror", f"{len(failed)} call(s) / {len(sfailed)} store op(s) failed but run "
                                     f"{'returned normally' if rec.exc is None else 'raised ' + type(rec.exc).__name__}"))
        return out
    if not any_failure:
        if isinstance(rec.exc, uberjob.CallError):
            out.append(V("spurious-callerror", f"run raised CallError but no call or store operation failed: {rec.exc!r}"))
        return out
    # (3) the error names a real failure, with the very exception object
    who = identify_error_call(rec)
    cause = rec.exc.__cause__
    candidates = []
    if who[0] == "node":
        nid = who[1]
        n = nodes[nid]
        if nid in failed:
            candidates = rec.rt.raised.get(nid, [])[-1:]
        elif n.get("store") and (("mtime", n["store"]) in sfailed):
            candidates = rec.rt.store_raised.get((n["store"], "mtime"), [])[-1:]
        else:
            out.append(V("error-names-unfailed", f"CallError.call is node {nid}, which did not fail in this run "
                                                  f"(failed: {sorted(failed)}, store ops: {sorted(sfailed)})"))
            return out
    elif who[0] in ("read", "write"):
        key = (who[0], who[1])
        if key not in sfailed:
            out.append(V("error-names-unfailed", f"CallError.call is store op {key}, which did not fail"))
            return out
        candidates = rec.rt.store_raised.get((who[1], who[0]), [])[-1:]
    else:
        out.append(V("error-names-unfailed", f"CallError.call is not a call of this run: {who}"))
        return out
    if not any(cause is c for c in candidates):
        out.append(V("cause-identity", f"CallError.__cause__ is {cause!r}, not the exception object raised by "
                                       f"{who} ({candidates!r})"))
        return out
    # (4) one worker at a time: the first failure
    cfg = rec.op.get("cfg", {})
    if cfg.get("max_workers") == 1 and (cfg.get("stale_workers") in (None, 1)):
        firsts = []
        for nid in failed:
            firsts.append((ix.final_fail_seq(nid), ("node", nid)))
        for k in sfailed:
            seq = max(s for s, _, _, _ in ix.sends[k])
            if k[0] == "mtime":
                owner = [n["id"] for n in world["nodes"] if n.get("store") == k[1]]
                firsts.append((seq, ("node", owner[0])))
            else:
                firsts.append((seq, k))
        firsts.sort()
        if firsts and firsts[0][1] != who:
            out.append(V("not-first-failure", f"with one worker the first failure is {firsts[0][1]} but CallError names {who}"))
    return out


# --------------------------------------------------------------------------
# C07
# --------------------------------------------------------------------------
def o_term(rec, world, hist=None):
    out = []
    sim = rec.sim
    ix = index(rec)
    interrupted = any(k.startswith("interrupt") for k in rec.rt.fired)
    tags = {"interrupt": interrupted}
    if interrupted:
        started = sum(1 for ev in rec.events if ev[3] == "thread-start")
        tags["during_pool_startup"] = _interrupt_during_startup(rec)
        tags["inside_thread_start_after_spawn"] = _interrupt_inside_started_wait(rec)
    if sim.hung is not None and sim.abort_reason in ("deadlock", "step-cap", "virtual-time-cap"):
        out.append(V("hang", f"run did not terminate: {sim.hung['why']} at step {sim.hung['steps']}; "
                             f"threads: {sim.hung['threads']}", **tags))
        return out
    if rec.aborted:
        return out
    deaths = sim.thread_deaths
    if rec.op.get("cfg", {}).get("progress") in ("bundled-sinkfail", "mixed-sinkfail"):
        # (the display's own thread ending with the sink's error has exited - that is all C07 asks of it)
        deaths = [d for d in deaths if "SinkError" not in d[2]]
    if deaths:
        out.append(V("thread-died", f"a thread created by run died with an exception: {sim.thread_deaths}", **tags))
        return out
    if sim.leaked:
        out.append(V("thread-leak", f"threads still alive after run returned: {sim.leaked}", **tags))
        return out
    if ix.run_exit is not None:
        late = [ev for ev in rec.events if ev[0] > ix.run_exit and ev[3] in ("call-start", "call-end", "store-start", "store-end")]
        if late:
            out.append(V("event-after-exit", f"plan code ran after run returned: {late[:3]}", **tags))
            return out
        exits = [ev for ev in rec.events if ev[3] == "thread-exit"]
        # A thread that was launched but had not begun to run when an interrupt ended Thread.start() (is_alive() is
        # still False, join() would raise) cannot be waited for with the public threading API; what C17 asks of it is
        # that it exits and starts no call - it finds the stop flag set. Everything that had begun to run when run
        # returned must have exited by then.
        booted = {ev[4] for ev in rec.events if ev[3] == "thread-boot" and ev[0] < ix.run_exit}
        late = [ev for ev in exits if ev[0] > ix.run_exit
                and not (tags.get("inside_thread_start_after_spawn") and ev[4] not in booted)]
        if len(late) < sum(1 for ev in exits if ev[0] > ix.run_exit):
            sim.probe("late-exit-of-a-thread-that-had-not-begun-to-run")   # (how often the allowance above applied)
        if late:
            out.append(V("thread-exit-after-return", "a thread created by run exited only after run returned", **tags))
    if rec.rt.inflight != 0 or rec.rt.inflight_mtime != 0:
        out.append(V("inflight-at-exit", f"{rec.rt.inflight} call(s) still executing when run returned", **tags))
    return out


def _interrupt_inside_started_wait(rec):
    """Was the interrupt delivered inside Thread.start() after the new thread had been created (CPython: during
    `self._started.wait()`), so that start() raised although the thread runs?"""
    for ev in rec.events:
        if ev[3] == "interrupt-delivered":
            return "thread-start-wait" in str(ev[5])
    return False


def _interrupt_during_startup(rec):
    """Was the interrupt delivered while the pool was still starting
    workers (the client's interrupted operation was Thread.start)?"""
    for ev in rec.events:
        if ev[3] == "interrupt-delivered":
            return "thread-start" in str(ev[5])
    return False


def o_cycle(rec, world, hist=None):
    """Cyclic variant: an error before any call or store event."""
    out = []
    if rec.sim.hung is not None:
        out.append(V("cycle-hang", f"cyclic plan: run hung ({rec.sim.hung['why']})"))
        return out
    if rec.exc is None:
        out.append(V("cycle-not-reported", "cyclic plan: run returned normally"))
        return out
    bad = [ev for ev in rec.events if ev[3] in ("call-start", "store-start", "side-write")]
    if bad:
        out.append(V("cycle-after-access", f"cyclic plan: {bad[0][3:]} happened before the cycle was reported"))
    return out


# --------------------------------------------------------------------------
# C10
# --------------------------------------------------------------------------
def o_limits(rec, world, hist=None):
    out = []
    ix = index(rec)
    cfg = rec.op.get("cfg", {})
    rt = rec.rt
    nodes = ref.by_id(world)
    mw = cfg.get("max_workers")
    if mw is not None and rt.max_inflight > mw:
        out.append(V("max-workers-exceeded", f"{rt.max_inflight} calls/store operations in flight with max_workers={mw}"))
        return out
    sw = cfg.get("stale_workers") or mw
    if sw is not None and rt.max_inflight_mtime > sw:
        out.append(V("stale-workers-exceeded", f"{rt.max_inflight_mtime} modified-time queries in flight with limit {sw}"))
        return out
    # retry
    limit = retry_attempts(cfg.get("retry"))
    for key, sts in ix.sstarts.items():
        if len(sts) > limit:
            out.append(V("store-attempts", f"store op {key} attempted {len(sts)} times with retry limit {limit}"))
            return out
        ok = ix.sok_end(key)
        if key[0] != "read" and ok is not None and any(s > ok for s, _ in sts):
            out.append(V("store-retry-after-success", f"store op {key} attempted again after success"))
            return out
    if rec.aborted or rec.rt.fired.get("interrupt"):
        return out
    failed = _failed_calls(ix)
    ds = ref.deps_star(world)
    # the exception reported for an exhausted call / store operation is the one of its last attempt
    import uberjob

    if isinstance(rec.exc, uberjob.CallError):
        who = identify_error_call(rec)
        last = None
        if who is not None and who[0] == "node":
            nid = who[1]
            if nid in failed:
                last = rec.rt.raised.get(nid, [])
            else:
                st = nodes[nid].get("store")
                last = rec.rt.store_raised.get((st, "mtime"), []) if st else None
        elif who is not None and who[0] in ("read", "write"):
            last = rec.rt.store_raised.get((who[1], who[0]), [])
        if last and len(last) > 1 and rec.exc.__cause__ is not last[-1]:
            idx = [i for i, e in enumerate(last) if e is rec.exc.__cause__]
            out.append(V("not-last-attempt", f"{who} failed {len(last)} attempts; the reported exception is that of attempt "
                                             f"{idx[0] + 1 if idx else '?'} ({rec.exc.__cause__!r}), not of the last one"))
            return out
    # max_errors (no registry: all physical nodes are user calls)
    if rec.built.registry is None:
        k = cfg.get("max_errors", 0)
        calls = world_calls(world)
        need = _needed_calls(world, rec)
        eligible_failing = {
            i for i in need
            if _always_fails(rec, i, limit) and not any(_always_fails(rec, d, limit) for d in ds[i] if d in need)
        }
        nfailed = len(failed)
        if k is not None and mw is not None and nfailed > k + mw:
            out.append(V("max-errors-exceeded", f"{nfailed} calls failed with max_errors={k}, max_workers={mw}"))
            return out
        if k is not None and mw == 1:
            want = min(k + 1, len(eligible_failing))
            if nfailed != want:
                out.append(V("max-errors-single", f"one worker, max_errors={k}: {nfailed} calls failed, expected {want} "
                                                  f"(failing calls with no failed dependency: {sorted(eligible_failing)})"))
                return out
        if k is None:
            should = {i for i in need if not any(_always_fails(rec, d, limit) for d in ds[i] if d in need)}
            if set(ix.starts) != should:
                out.append(V("max-errors-none", f"max_errors=None: executed {sorted(ix.starts)}, every call without "
                                                f"failed dependency is {sorted(should)}"))
                return out
        # flaky success counts as success; exhausted reports the last attempt
        for i in need:
            f = rec.rt.faults.get("calls", {}).get(str(i))
            if f and f.get("until") is not None and f["until"] < limit and i in ix.starts:
                if ix.ok_end(i) is None:
                    out.append(V("flaky-not-retried", f"call {i} fails {f['until']} time(s), retry={limit}, but never succeeded"))
                    return out
                if len(ix.starts[i]) != f["until"] + 1:
                    out.append(V("flaky-attempts", f"call {i}: {len(ix.starts[i])} attempts, expected {f['until'] + 1}"))
                    return out
    return out


def _needed_calls(world, rec):
    nodes = ref.by_id(world)
    wants = rec.op.get("cfg", {}).get("output", True) and world.get("output") is not None
    need = set()
    if wants:
        ds = ref.deps_star(world)
        for r in ref.spec_refs(world["output"]):
            need.add(r)
            need |= ds[r]
    return {i for i in need if nodes[i]["kind"] == "call"}


def _always_fails(rec, nid, limit):
    f = rec.rt.faults.get("calls", {}).get(str(nid))
    if not f:
        return False
    if f.get("until") is None:
        return True
    if f.get("exc", "E1") in ("B1", "SystemExit", "KeyboardInterrupt"):
        return True
    return f["until"] >= limit


# --------------------------------------------------------------------------
# C13
# --------------------------------------------------------------------------
def o_unmodified(rec, world, hist=None):
    d = snapshot_diff(rec.snap_before, rec.snap_after)
    if d:
        return [V("plan-modified", f"the caller's Plan/Registry changed across run: {d}")]
    return []


# --------------------------------------------------------------------------
# C15
# --------------------------------------------------------------------------
def o_observer_start_failure(rec, world, hist=None):
    """A composite whose k-th member fails to start: the members already
    entered are exited exactly once, nothing else happens, the error propagates."""
    from model.observer import ObserverStartError

    out = []
    ix = index(rec)
    if not isinstance(rec.exc, ObserverStartError):
        out.append(V("observer-start-error-lost", f"a progress observer failed to start but run "
                                                  f"{'returned' if rec.exc is None else 'raised ' + repr(rec.exc)}"))
        return out
    if ix.starts or ix.sstarts:
        out.append(V("work-without-observer", "calls or store operations ran although the progress observer failed to start"))
        return out
    for o in rec.observers:
        kinds = [r[1] for r in o.records]
        if "enter-raised" in kinds:
            if kinds != ["enter-raised"]:
                out.append(V("observer-grammar", f"member {o.tag} failed to start but then received {kinds}"))
                return out
            continue
        if kinds and (kinds[0] != "enter" or kinds.count("exit") != 1 or kinds[-1] != "exit"):
            out.append(V("observer-not-exited", f"member {o.tag} was entered before another member failed to start and was "
                                                f"not exited exactly once: {kinds}"))
            return out
    return out


def o_progress(rec, world, hist=None):
    out = []
    ix = index(rec)
    if rec.aborted:
        return out
    if not rec.observers:
        return out
    if rec.op.get("cfg", {}).get("progress") == "rec2fail":
        return o_observer_start_failure(rec, world, hist)
    seqs = []
    for o in rec.observers:
        seqs.append([r[1:] for r in o.records])
    # composite: every member receives every notification (members are called
    # one after the other, so the relative order of notifications coming from
    # different threads may differ between members; each member's own sequence
    # must satisfy the grammar below)
    ms0 = sorted(map(repr, seqs[0]))
    for i, s in enumerate(seqs[1:], 1):
        if sorted(map(repr, s)) != ms0:
            out.append(V("composite-fanout", f"composite member {i} did not receive the same notifications as "
                                             f"member 0 ({len(s)} vs {len(seqs[0])})"))
            return out
    for o in rec.observers:
        out = _progress_one(rec, world, ix, o.records)
        if out:
            return out
    return out


def _progress_one(rec, world, ix, first):
    out = []
    kinds = [r[1] for r in first]
    if not kinds or kinds[0] != "enter":
        out.append(V("observer-grammar", f"first notification is {kinds[:1]}, not enter"))
        return out
    if kinds.count("enter") != 1 or kinds.count("exit") != 1 or kinds[-1] != "exit":
        out.append(V("observer-grammar", f"enter/exit not exactly once around everything: {kinds[:3]}...{kinds[-3:]}"))
        return out
    if ix.run_exit is not None and first[-1][0] > ix.run_exit:
        out.append(V("observer-grammar", "observer exited after run returned"))
        return out
    totals = {}
    running = {}
    completed = {}
    failed = {}
    open_ = {}
    base_exc = _has_base_exception(rec)
    for r in first[1:-1]:
        kind = r[1]
        if kind == "total":
            key = (r[2], _skey(r[3]))
            if running.get(key) or completed.get(key) or failed.get(key):
                out.append(V("total-after-running", f"total for {key} announced after activity in it"))
                return out
            totals[key] = totals.get(key, 0) + r[4]
        elif kind == "running":
            key = (r[2], _skey(r[3]))
            if key not in totals:
                out.append(V("running-before-total", f"{key} reported running before its total was announced"))
                return out
            running[key] = running.get(key, 0) + 1
            open_[key] = open_.get(key, 0) + 1
        elif kind in ("completed", "failed"):
            key = (r[2], _skey(r[3]))
            if open_.get(key, 0) <= 0:
                out.append(V("unpaired-completion", f"{kind} for {key} without a matching running"))
                return out
            open_[key] -= 1
            d = completed if kind == "completed" else failed
            d[key] = d.get(key, 0) + 1
        else:
            out.append(V("observer-grammar", f"unexpected notification {r}"))
            return out
    still = {k: v for k, v in open_.items() if v}
    if still and not base_exc and not rec.rt.fired.get("interrupt"):
        out.append(V("running-at-exit", f"reported running when run returned: {still}"))
        return out
    if rec.exc is None and not rec.op.get("cfg", {}).get("dry_run"):
        for key, t in totals.items():
            if completed.get(key, 0) != t:
                out.append(V("completed-ne-total", f"after success completed={completed.get(key, 0)} total={t} in {key}"))
                return out
        # run totals per scope = executed calls with that scope + function name
        want = {}
        nodes = ref.by_id(world)
        for nid in ix.starts:
            if nid in (rec.extra.get("relabelled") or ()) or nid not in nodes:
                continue   # (runs under another function name / was added: a transform_physical hook at work)
            n = nodes[nid]
            sc = tuple(_scope_tokens(n)) + (rec.built.fns[nid].__module__ + "." + n.get("fname", "f"),)
            want[_skey(sc)] = want.get(_skey(sc), 0) + 1
        got = {}
        for (section, sk), t in totals.items():
            if section == "run" and _is_user_scope(sk, rec):
                got[sk] = t
        if got != want:
            out.append(V("run-totals", f"'run' totals per user scope {got} != executed calls per scope {want}"))
            return out
        if rec.built.registry is not None:
            from uberjob.graph import Call

            # calls of the plan handed to run, plus the gather calls run adds for a structured output
            n_calls = sum(1 for x in rec.built.plan.graph.nodes() if type(x) is Call)
            wants = rec.op.get("cfg", {}).get("output", True) and world.get("output") is not None
            if wants:
                n_calls += _implicit_gathers_spec(world["output"])
            st = sum(t for (section, _), t in totals.items() if section == "stale")
            if st != n_calls:
                out.append(V("stale-totals", f"'stale' totals sum to {st}, the plan has {n_calls} calls to examine"))
    return out


def _implicit_gathers_spec(spec):
    """Gather calls inserted for a structure: one per exact built-in container
    (and per dict item pair) that contains a node."""
    cnt = 0
    k = spec[0]
    if k in ("L", "T", "S"):
        if ref.has_node(spec):
            cnt += 1
        kids = spec[1]
        if k == "S":
            # a set display keeps one element per build-time-equal member
            from model.worldgen import _build_key

            kids = list({_build_key(x): x for x in kids}.values())
        for s in kids:
            cnt += _implicit_gathers_spec(s)
    elif k == "D":
        if ref.has_node(spec):
            cnt += 1
        for a, b in spec[1]:
            if ref.has_node(a) or ref.has_node(b):
                cnt += 1
            cnt += _implicit_gathers_spec(a) + _implicit_gathers_spec(b)
    return cnt


def _scope_tokens(n):
    from model.core import scope_value

    return [scope_value(t) for t in n.get("scope", ())]


def _skey(scope):
    # scopes are identified by equality (Plan.scope: "hashable and equatable")
    return tuple(scope)


def _is_user_scope(sk, rec):
    return bool(sk) and isinstance(sk[-1], str) and sk[-1].startswith("model.build.")


def _has_base_exception(rec):
    for lst in rec.rt.raised.values():
        for e in lst:
            if not isinstance(e, Exception):
                return True
    return False


# --------------------------------------------------------------------------
# C16 (evaluated inline at call boundaries by a hook; see engine.py)
# --------------------------------------------------------------------------
class ReleaseMonitor:
    """Checks at every call start / completed notification that results
    whose producer and consumers have all finished are no longer alive."""

    def __init__(self, rec_getter, world):
        self.world = world
        self.nodes = ref.by_id(world)
        self.consumers = {}   # producer id -> set of consumer call ids (through routing nodes)
        self.finished = set()
        self.violation = None
        self.checks = 0
        self.released = 0
        self.rt = None
        dsd = ref.direct_preds(world)
        aps = {n["id"]: list(dict.fromkeys(ref.arg_preds(n))) for n in world["nodes"]}
        # value flow: who (transitively through non-call routing nodes holding
        # the very object) receives producer p's result object?
        self.holders = {}     # producer -> set of node ids (any kind) that hold the object as input/output
        for n in world["nodes"]:
            for p in aps[n["id"]]:
                self.holders.setdefault(p, set()).add(n["id"])
        self.keep = set()
        out = world.get("output")
        if out is not None:
            for r in ref.spec_refs(out):
                self.keep.add(r)

    def flows_to(self, p):
        """All nodes through which p's result object may still be reachable:
        consumers, and consumers of routing nodes (lit/gather/unpack/item)
        whose own value contains the object."""
        seen = set()
        stack = [p]
        while stack:
            x = stack.pop()
            for c in self.holders.get(x, ()):
                if c in seen:
                    continue
                seen.add(c)
                if self.nodes[c]["kind"] in ("gather", "unpack", "item"):
                    stack.append(c)
        return seen

"""Engine-machine checks: single uberjob.run over generated worlds under
adversarial schedules (C01 C02 C04 C06 C07 C10 C13 C15 C16)."""
from checks import oracles as O
from checks.common import result
from model import machine, ref, worldgen

PROPS = {}


def prop(name):
    def deco(f):
        PROPS[name] = f
        return f

    return deco


SIZES = {"quick": dict(n_min=3, n_max=11), "thorough": dict(n_min=3, n_max=20)}


def base_desc(seed, tier, *, registry=False, faults=False, **genkw):
    rng = worldgen.child_rng(seed, "engine")
    kw = dict(SIZES[tier])
    kw.update(genkw)
    world = worldgen.gen_world(rng, registry=registry, **kw)
    cfg = worldgen.gen_cfg(rng, world, registry=registry)
    sc = worldgen.gen_sched(rng)
    op = dict(op="run", cfg=cfg)
    if faults:
        op["faults"] = dict(calls=worldgen.gen_call_faults(rng, world))
    return dict(seed=seed, world=world, ops=[op], sched=sc), rng


def generate(prop, seed, tier):
    return GEN[prop](seed, tier)


def execute(prop, desc):
    hist = machine.History(desc)
    hist.init_sources()
    tapes = desc.get("tapes") or {}
    viol = []
    for idx, op in enumerate(desc["ops"]):
        rec = machine.apply_op(hist, op, idx, tape=tapes.get(str(idx)))
        if rec is not None:
            viol.extend(ORACLES[prop](rec, desc["world"], hist))
            if viol:
                break
    return result(desc, hist, viol)


# ---- generators ------------------------------------------------------------
def gen_c01(seed, tier):
    desc, rng = base_desc(seed, tier, p_dep=0.4, p_lit=0.15, p_parallel=0.3, p_late_dep=0.25)
    desc["ops"][0]["cfg"]["max_errors"] = 0
    return desc


def gen_c02(seed, tier):
    desc, rng = base_desc(seed, tier, p_nested=0.45, p_kw=0.45, p_unpack=0.15, p_gather=0.12, p_opaque=0.3,
                          p_const=0.2)
    desc["ops"][0]["cfg"]["retry"] = None
    return desc


def gen_c04(seed, tier):
    faults = (seed % 3 == 0)
    desc, rng = base_desc(seed, tier, faults=faults, p_dep=0.35)
    return desc


GEN = {"C01": gen_c01, "C02": gen_c02, "C04": gen_c04}


def o_c01(rec, world, hist):
    return O.o_order(rec, world, hist) + O.o_term(rec, world, hist)


def o_c02(rec, world, hist):
    return O.o_value(rec, world, hist) + O.o_term(rec, world, hist)[:1]


def o_c04(rec, world, hist):
    return O.o_once(rec, world, hist)


ORACLES = {"C01": o_c01, "C02": o_c02, "C04": o_c04}

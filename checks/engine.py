"""Engine-machine checks: single uberjob.run over generated worlds under
adversarial schedules (C01 C02 C04 C06 C07 C10 C13 C15 C16)."""
from checks import oracles as O
from checks.common import result
from model import machine, ref, worldgen

PROPS = {}


def prop(name):
    def deco(f):
        PROPS[name] = f
        return f

    return deco


SIZES = {"quick": dict(n_min=3, n_max=11), "thorough": dict(n_min=3, n_max=20)}


def base_desc(seed, tier, *, registry=False, faults=False, **genkw):
    rng = worldgen.child_rng(seed, "engine")
    kw = dict(SIZES[tier])
    kw.update(genkw)
    world = worldgen.gen_world(rng, registry=registry, **kw)
    cfg = worldgen.gen_cfg(rng, world, registry=registry)
    sc = worldgen.gen_sched(rng)
    op = dict(op="run", cfg=cfg)
    if faults:
        op["faults"] = dict(calls=worldgen.gen_call_faults(rng, world))
    return dict(seed=seed, world=world, ops=[op], sched=sc), rng


def generate(prop, seed, tier):
    return GEN[prop](seed, tier)


def execute(prop, desc):
    hist = machine.History(desc)
    hist.init_sources()
    tapes = desc.get("tapes") or {}
    viol = []
    for idx, op in enumerate(desc["ops"]):
        rec = machine.apply_op(hist, op, idx, tape=tapes.get(str(idx)))
        if rec is not None:
            viol.extend(ORACLES[prop](rec, desc["world"], hist))
            if viol:
                break
    return result(desc, hist, viol)


# ---- generators ------------------------------------------------------------
def gen_c01(seed, tier):
    desc, rng = base_desc(seed, tier, p_dep=0.4, p_lit=0.15, p_parallel=0.3, p_late_dep=0.25)
    desc["ops"][0]["cfg"]["max_errors"] = 0
    return desc


def gen_c02(seed, tier):
    desc, rng = base_desc(seed, tier, p_nested=0.45, p_kw=0.45, p_unpack=0.15, p_gather=0.12, p_opaque=0.3,
                          p_const=0.2)
    desc["ops"][0]["cfg"]["retry"] = None
    return desc


def gen_c04(seed, tier):
    faults = (seed % 3 == 0)
    desc, rng = base_desc(seed, tier, faults=faults, p_dep=0.35)
    return desc


GEN = {"C01": gen_c01, "C02": gen_c02, "C04": gen_c04}


def o_c01(rec, world, hist):
    return O.o_order(rec, world, hist) + O.o_term(rec, world, hist)


def o_c02(rec, world, hist):
    return O.o_value(rec, world, hist) + O.o_term(rec, world, hist)[:1]


def o_c04(rec, world, hist):
    return O.o_once(rec, world, hist)


ORACLES = {"C01": o_c01, "C02": o_c02, "C04": o_c04}


# ---- C06 / C07 / C10 / C13 / C15 -------------------------------------------
def gen_c06(seed, tier):
    desc, rng = base_desc(seed, tier, faults=True, p_dep=0.35)
    op = desc["ops"][0]
    op["cfg"]["max_errors"] = rng.choice([0, 0, 1, 2, 5, None])
    if not op["faults"]["calls"]:
        calls = [n["id"] for n in desc["world"]["nodes"] if n["kind"] == "call"]
        if calls:
            op["faults"]["calls"][str(rng.choice(calls))] = dict(exc=rng.choice(["E1", "B1"]))
    return desc


def gen_c07(seed, tier):
    rng0 = worldgen.child_rng(seed, "c07")
    mode = rng0.random()
    if mode < 0.25:
        return gen_cyclic(seed, tier, rng0)
    desc, rng = base_desc(seed, tier, faults=rng0.random() < 0.6, p_dep=0.3)
    n = len(desc["world"]["nodes"])
    desc["ops"][0]["cfg"]["max_workers"] = rng.choice([1, 2, 3, n, n + 1, n + 3])
    return desc


def gen_cyclic(seed, tier, rng):
    registry = rng.random() < 0.4
    desc, rng2 = base_desc(seed, tier, registry=registry, p_unpack=0.0)
    world = desc["world"]
    nodes = ref.by_id(world)
    ds = ref.deps_star(world)
    # the run must examine: everything with a registry, ancestors of the output without
    if registry:
        examined = set(nodes)
    else:
        examined = set()
        if world.get("output") is not None:
            for r in ref.spec_refs(world["output"]):
                examined.add(r)
                examined |= ds[r]
    cands = []
    for v in sorted(examined):
        if nodes[v]["kind"] in ("item", "unpack"):
            continue
        for u in sorted(ds[v] | {v}):
            if nodes[u]["kind"] in ("item", "unpack", "src") and u != v:
                continue
            if u in examined:
                cands.append((v, u))  # edge v -> u closes a cycle (u is upstream of v, or u == v)
    if not cands:
        desc["cyclic"] = False
        return desc
    v, u = rng.choice(cands)
    kind = rng.choice(["dep", "dep", "pos", "kw"])
    if nodes[u]["kind"] != "call":
        kind = "dep"
    if kind == "dep":
        world["back_edges"] = [[v, u]]
    else:
        world["back_arg_edges"] = [[v, u, kind]]
    desc["cyclic"] = True
    on_cycle = [x for x in nodes if (x == v or x in ds[v]) and (x == u or u in ds[x])]
    desc["cycle_literal_only"] = all(nodes[x]["kind"] == "lit" for x in on_cycle)
    desc["cycle_registry"] = registry
    return desc


def gen_c10(seed, tier):
    rng0 = worldgen.child_rng(seed, "c10")
    flaky = rng0.random() < 0.5
    desc, rng = base_desc(seed, tier, p_dep=0.3, durs=(0.0, 1.0, 1.0, 2.0, 5.0))
    world = desc["world"]
    op = desc["ops"][0]
    op["faults"] = dict(calls=worldgen.gen_call_faults(rng, world, p_fail=0.3, excs=("E1", "E2", "B1"), flaky=flaky))
    op["cfg"]["retry"] = rng.choice([None, 1, 2, 3, 4, ["custom", 2], ["custom", 3]])
    op["cfg"]["max_errors"] = rng.choice([0, 1, 2, 3, None, None])
    return desc


def gen_c13(seed, tier):
    rng0 = worldgen.child_rng(seed, "c13")
    registry = rng0.random() < 0.5
    desc, rng = base_desc(seed, tier, registry=registry, faults=rng0.random() < 0.4)
    return desc


def gen_c15(seed, tier):
    rng0 = worldgen.child_rng(seed, "c15")
    registry = rng0.random() < 0.4
    desc, rng = base_desc(seed, tier, registry=registry, faults=rng0.random() < 0.5,
                          p_unpack=0.0 if registry else 0.08)
    op = desc["ops"][0]
    op["cfg"]["progress"] = rng.choice(["rec", "rec", "rec2"])
    op["cfg"]["obs_yield"] = rng.random() < 0.5
    op["cfg"]["max_errors"] = rng.choice([0, 1, 3, None])
    if "faults" in op:
        for f in op["faults"]["calls"].values():
            if rng.random() < 0.7:
                f["exc"] = rng.choice(["E1", "E2"])
    return desc


GEN.update({"C06": gen_c06, "C07": gen_c07, "C10": gen_c10, "C13": gen_c13, "C15": gen_c15})


def o_c06(rec, world, hist):
    return O.o_fail(rec, world, hist)


def o_c07(rec, world, hist):
    if hist.desc.get("cyclic"):
        out = O.o_cycle(rec, world, hist)
        for v in out:
            v["tags"].update(literal_only=bool(hist.desc.get("cycle_literal_only")),
                             registry=bool(hist.desc.get("cycle_registry")))
        return out
    return O.o_term(rec, world, hist)


def o_c10(rec, world, hist):
    return O.o_limits(rec, world, hist)


def o_c13(rec, world, hist):
    return O.o_unmodified(rec, world, hist)


def o_c15(rec, world, hist):
    return O.o_progress(rec, world, hist)


ORACLES.update({"C06": o_c06, "C07": o_c07, "C10": o_c10, "C13": o_c13, "C15": o_c15})

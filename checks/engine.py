"""Engine-machine checks: single uberjob.run over generated worlds under
adversarial schedules (C01 C02 C04 C06 C07 C10 C13 C15 C16)."""
from checks import oracles as O
from checks.common import result
from model import machine, ref, worldgen

PROPS = {}


def prop(name):
    def deco(f):
        PROPS[name] = f
        return f

    return deco


SIZES = {"quick": dict(n_min=3, n_max=11), "thorough": dict(n_min=3, n_max=20)}


def base_desc(seed, tier, *, registry=False, faults=False, **genkw):
    rng = worldgen.child_rng(seed, "engine")
    kw = dict(SIZES[tier])
    kw.update(genkw)
    world = worldgen.gen_world(rng, registry=registry, **kw)
    cfg = worldgen.gen_cfg(rng, world, registry=registry)
    sc = worldgen.gen_sched(rng)
    op = dict(op="run", cfg=cfg)
    if faults:
        op["faults"] = dict(calls=worldgen.gen_call_faults(rng, world))
    return dict(seed=seed, world=world, ops=[op], sched=sc), rng


def generate(prop, seed, tier):
    return GEN[prop](seed, tier)


def execute(prop, desc):
    hist = machine.History(desc)
    hist.init_sources()
    tapes = desc.get("tapes") or {}
    viol = []
    for idx, op in enumerate(desc["ops"]):
        rec = machine.apply_op(hist, op, idx, tape=tapes.get(str(idx)))
        if rec is not None:
            viol.extend(ORACLES[prop](rec, desc["world"], hist))
            if viol:
                break
    return result(desc, hist, viol)


# ---- generators ------------------------------------------------------------
def gen_c01(seed, tier):
    desc, rng = base_desc(seed, tier, p_dep=0.4, p_lit=0.15, p_parallel=0.3, p_late_dep=0.25)
    desc["ops"][0]["cfg"]["max_errors"] = 0
    return desc


def gen_c02(seed, tier):
    desc, rng = base_desc(seed, tier, p_nested=0.45, p_kw=0.45, p_unpack=0.15, p_gather=0.12, p_opaque=0.3,
                          p_const=0.2, p_shared_list=0.25 if seed % 3 == 1 else 0.0)
    desc["ops"][0]["cfg"]["retry"] = None
    if seed % 41 == 11:
        # unpack yields the n items the sequence had when it was unpacked: a later call that changes the list in place
        # (ordered after the unpack, before some of the item accesses) does not change what the items are
        n = rng.choice([2, 3, 4])
        nodes = [dict(id=0, kind="call", args=[], kwargs=[], deps=[], scope=[], dur=0.0, ret=["list", n], fname="f", depth=0),
                 dict(id=1, kind="unpack", args=[["n", 0]], n=n, items=list(range(2, 2 + n)), deps=[], scope=[], depth=0)]
        nodes += [dict(id=2 + k, kind="item", of=1, index=k, deps=[], scope=[]) for k in range(n)]
        m = 2 + n
        nodes.append(dict(id=m, kind="call", args=[["n", 0], ["n", 2]], kwargs=[], deps=[], scope=[], dur=rng.choice([0.0, 1.0]),
                          ret="val", fname="g", depth=0, mutates=True))
        nodes.append(dict(id=m + 1, kind="call", args=[["n", 2 + k] for k in range(1, n)], kwargs=[], deps=[], scope=[], dur=0.0,
                          ret="val", fname="h", depth=0))
        world = dict(nodes=nodes, stores={}, late_deps=[[m, 2 + k] for k in range(1, n)],
                     output=["T", [["n", m + 1], ["n", m]]])
        desc["world"] = world
        desc["ops"][0]["cfg"].update(max_errors=0, max_workers=rng.choice([1, 2, 3]))
        return desc
    if seed % 10 == 7:
        # the same Plan object run by two or three threads at the same time: every run returns the reference value
        desc["mode"] = "concurrent"
        desc["clients"] = rng.choice([2, 2, 3])
        desc["ops"][0]["cfg"].update(max_errors=0, max_workers=rng.choice([1, 2, 3]))
        for n in desc["world"]["nodes"]:
            if n["kind"] == "call" and rng.random() < 0.4:
                n["dur"] = rng.choice([1.0, 2.0])
    return desc


def exec_c02_concurrent(prop, desc):
    import uberjob
    from model.core import canon, typed_equal
    from simkit import prims

    world = desc["world"]
    hist = machine.History(desc)
    hist.init_sources()
    tapes = desc.get("tapes") or {}
    outs = []

    def wrap(client, sim, rt, built, kwargs):
        results = [None] * desc["clients"]

        def one(i):
            try:
                results[i] = ("ok", uberjob.run(built.plan, **kwargs))
            except BaseException as e:  # noqa
                results[i] = ("exc", e)
                if isinstance(e, sched_abort()):
                    raise

        threads = [prims.Thread(target=one, args=(i,)) for i in range(1, desc["clients"])]
        for t in threads:
            t.start()
        one(0)
        for t in threads:
            t.join()
        outs.extend(results)
        return results[0][1] if results[0][0] == "ok" else None

    rec = machine.run_op(hist, desc["ops"][0], 0, tape=tapes.get("0"), client_wrap=wrap)
    viol = O.o_term(rec, world, hist)[:1]
    if not viol:
        seen, _ = ref.evaluate(world, rec.built.objs, sources={})
        exp = ref.eval_output(world, seen, rec.built.objs) if world.get("output") is not None else None
        for i, r in enumerate(outs):
            if r is None or r[0] != "ok":
                viol.append(O.V("concurrent-run-failed", f"run {i} of {len(outs)} simultaneous runs of one plan: {r!r}"))
                break
            if not typed_equal(r[1], exp):
                viol.append(O.V("output-value", f"run {i} of {len(outs)} simultaneous runs of one plan returned "
                                                f"{canon(r[1])[:200]}, direct evaluation gives {canon(exp)[:200]}"))
                break
        viol.extend(O.V(o, m) for o, m in rec.rt.violations[:1])
    return result(desc, hist, viol)


def gen_c04(seed, tier):
    faults = (seed % 3 == 0)
    desc, rng = base_desc(seed, tier, faults=faults, p_dep=0.35)
    if seed % 17 == 8:
        # a Plan and a modified copy of it (one more dependency), both run in one process, in either order: what
        # each run needs is decided by ITS plan
        desc, rng = base_desc(seed, tier, p_dep=0.3, out_modes=("node", "node", "struct"))
        world = desc["world"]
        ds = ref.deps_star(world)
        need = set()
        if world.get("output") is not None:
            for r in ref.spec_refs(world["output"]):
                need.add(r)
                need |= ds[r]
        nodes = ref.by_id(world)
        extra = [i for i in nodes if i not in need and nodes[i]["kind"] == "call"]
        targets = [i for i in need if nodes[i]["kind"] in ("call", "lit", "gather")]
        pairs = [(z, y) for z in extra for y in targets if y not in ds[z] and z != y]
        if pairs:
            z, y = rng.choice(pairs)
            desc["mode"] = "variant"
            desc["variant_dep"] = [z, y]
            desc["variant_first"] = rng.random() < 0.5
            desc["ops"][0]["cfg"].update(max_errors=0, retry=None)
    return desc


def exec_c04_variant(prop, desc):
    """Run a plan and a copy of it that has one more dependency edge (both share their node objects)."""
    import copy as _copy

    import uberjob

    world = desc["world"]
    z, y = desc["variant_dep"]
    world2 = _copy.deepcopy(world)
    world2["late_deps"] = list(world2.get("late_deps", ())) + [[z, y]]
    hist = machine.History(desc)
    hist.init_sources()
    op = desc["ops"][0]
    holder = {}

    def variant_runner(built, kwargs):
        if "plan" not in holder:
            holder["plan"] = built.plan.copy()
            holder["plan"].add_dependency(built.nodes[z], built.nodes[y])
        return uberjob.run(holder["plan"], **kwargs)

    viol = []
    order = ["variant", "base"] if desc.get("variant_first") else ["base", "variant"]
    built = None
    for idx, which in enumerate(order):
        if which == "variant" and built is None:
            from model.build import build
            from simkit import shims

            shims.install_node_hash(desc["sched"].get("salt", 0))
            built = build(world)
        rec = machine.run_op(hist, dict(op, cfg=dict(op["cfg"], capture_physical=False)), idx, built=built,
                             runner=variant_runner if which == "variant" else None)
        built = rec.built
        v = O.o_once(rec, world2 if which == "variant" else world, hist)
        for x in v:
            x["msg"] = f"[{which} plan, run {idx + 1} of 2 in this process] " + x["msg"]
        viol.extend(v)
        if viol:
            break
    return result(desc, hist, viol)


GEN = {"C01": gen_c01, "C02": gen_c02, "C04": gen_c04}


def o_c01(rec, world, hist):
    return O.o_order(rec, world, hist) + O.o_term(rec, world, hist)


def o_c02(rec, world, hist):
    return O.o_value(rec, world, hist) + O.o_term(rec, world, hist)[:1]


def o_c04(rec, world, hist):
    return O.o_once(rec, world, hist)


ORACLES = {"C01": o_c01, "C02": o_c02, "C04": o_c04}


# ---- C06 / C07 / C10 / C13 / C15 -------------------------------------------
def gen_c06(seed, tier):
    desc, rng = base_desc(seed, tier, faults=True, p_dep=0.35)
    op = desc["ops"][0]
    op["cfg"]["max_errors"] = rng.choice([0, 0, 1, 2, 5, None])
    if not op["faults"]["calls"]:
        calls = [n["id"] for n in desc["world"]["nodes"] if n["kind"] == "call"]
        if calls:
            op["faults"]["calls"][str(rng.choice(calls))] = dict(exc=rng.choice(["E1", "B1", "F1", "F2", "Z1"]))
    return desc


def gen_c07(seed, tier):
    rng0 = worldgen.child_rng(seed, "c07")
    mode = rng0.random()
    if mode < 0.25:
        return gen_cyclic(seed, tier, rng0)
    lits = dict(p_lit=0.35, p_lit_chain=0.3, p_late_dep=0.3) if seed % 5 == 2 else {}   # several literals with
    desc, rng = base_desc(seed, tier, faults=rng0.random() < 0.6, p_dep=0.3, **lits)     # predecessors queued at once
    n = len(desc["world"]["nodes"])
    desc["ops"][0]["cfg"]["max_workers"] = rng.choice([1, 2, 3, n, n + 1, n + 3])
    return desc


def gen_cyclic(seed, tier, rng):
    registry = rng.random() < 0.4
    desc, rng2 = base_desc(seed, tier, registry=registry, p_unpack=0.0)
    world = desc["world"]
    nodes = ref.by_id(world)
    ds = ref.deps_star(world)
    # the run must examine: everything with a registry, ancestors of the output without
    if registry:
        examined = set(nodes)
    else:
        examined = set()
        if world.get("output") is not None:
            for r in ref.spec_refs(world["output"]):
                examined.add(r)
                examined |= ds[r]
    cands = []
    for v in sorted(examined):
        if nodes[v]["kind"] in ("item", "unpack"):
            continue
        for u in sorted(ds[v] | {v}):
            if nodes[u]["kind"] in ("item", "unpack", "src") and u != v:
                continue
            if u in examined:
                cands.append((v, u))  # edge v -> u closes a cycle (u is upstream of v, or u == v)
    if not cands:
        desc["cyclic"] = False
        return desc
    v, u = rng.choice(cands)
    kind = rng.choice(["dep", "dep", "pos", "kw"])
    if nodes[u]["kind"] != "call":
        kind = "dep"
    if kind == "dep":
        world["back_edges"] = [[v, u]]
    else:
        world["back_arg_edges"] = [[v, u, kind]]
    desc["cyclic"] = True
    on_cycle = [x for x in nodes if (x == v or x in ds[v]) and (x == u or u in ds[x])]
    desc["cycle_literal_only"] = all(nodes[x]["kind"] == "lit" for x in on_cycle)
    desc["cycle_registry"] = registry
    return desc


def gen_c10(seed, tier):
    rng0 = worldgen.child_rng(seed, "c10")
    flaky = rng0.random() < 0.5
    if seed % 5 == 0:
        # registry worlds: retry also wraps store operations and modified-time queries
        desc = _registry_fault_desc(seed, tier, "c10r")
        op = desc["ops"][0]
        op["cfg"]["retry"] = rng0.choice([2, 3, 4, ["custom", 2], ["custom", 3]])
        for f in op["faults"]["stores"]:
            f["until"] = rng0.choice([None, 1, 2, 5])
        for f in op["faults"]["calls"].values():
            f["exc"] = rng0.choice(["E1", "E2"])
            f["until"] = rng0.choice([None, 1, 2])
        return desc
    desc, rng = base_desc(seed, tier, p_dep=0.3, durs=(0.0, 1.0, 1.0, 2.0, 5.0))
    world = desc["world"]
    op = desc["ops"][0]
    op["faults"] = dict(calls=worldgen.gen_call_faults(rng, world, p_fail=0.3, excs=("E1", "E2", "B1", "F1", "Z1"), flaky=flaky))
    op["cfg"]["retry"] = rng.choice([None, 1, 2, 3, 4, ["custom", 2], ["custom", 3]])
    op["cfg"]["max_errors"] = rng.choice([0, 1, 2, 3, None, None])
    return desc


def gen_c13(seed, tier):
    rng0 = worldgen.child_rng(seed, "c13")
    registry = rng0.random() < 0.5
    desc, rng = base_desc(seed, tier, registry=registry, faults=rng0.random() < 0.4)
    return desc


def gen_c15(seed, tier):
    rng0 = worldgen.child_rng(seed, "c15")
    registry = rng0.random() < 0.4
    desc, rng = base_desc(seed, tier, registry=registry, faults=rng0.random() < 0.5,
                          p_unpack=0.0 if registry else 0.08)
    op = desc["ops"][0]
    op["cfg"]["progress"] = rng.choice(["rec", "rec", "rec2", "rec2", "rec2fail", "mixed-sinkfail"])
    if op["cfg"]["progress"] == "mixed-sinkfail":
        op["cfg"]["sink_fails_from"] = rng.choice([1, 1, 2, 3])
    op["cfg"]["fail_member"] = rng.choice(["obs0", "obs1", "obs2"])
    op["cfg"]["obs_yield"] = rng.random() < 0.5
    op["cfg"]["max_errors"] = rng.choice([0, 1, 3, None])
    op["cfg"]["transform"] = rng.choice([None, None, None, "relabel", "extra-call"])
    if seed % 9 == 4:
        # Ctrl-C during the run: the observer is exited once, after every other notification
        op.setdefault("faults", {}).setdefault("calls", {})
        op["faults"]["interrupt_at"] = rng.randrange(1, 6)
        for n in desc["world"]["nodes"]:
            if n["kind"] == "call":
                n["dur"] = rng.choice([1.0, 2.0, 5.0])
    if "faults" in op:
        for f in op["faults"]["calls"].values():
            if rng.random() < 0.7:
                f["exc"] = rng.choice(["E1", "E2", "CallError", "NodeError"])
    return desc


GEN.update({"C06": gen_c06, "C07": gen_c07, "C10": gen_c10, "C13": gen_c13, "C15": gen_c15})


def o_c06(rec, world, hist):
    out = O.o_fail(rec, world, hist)
    if (rec.op.get("faults") or {}).get("thread_start_fail") and isinstance(rec.exc, RuntimeError) \
            and "start new thread" in str(rec.exc):
        # (the pool could not start all its threads: that error is what run raises; nothing downstream of a failed
        #  call may have started all the same)
        out = [v for v in out if v["oracle"] == "downstream-of-failure"]
    return out


def o_c07(rec, world, hist):
    if hist.desc.get("cyclic"):
        out = O.o_cycle(rec, world, hist)
        for v in out:
            v["tags"].update(literal_only=bool(hist.desc.get("cycle_literal_only")),
                             registry=bool(hist.desc.get("cycle_registry")))
        return out
    return O.o_term(rec, world, hist)


def o_c10(rec, world, hist):
    return O.o_limits(rec, world, hist)


def o_c13(rec, world, hist):
    return O.o_unmodified(rec, world, hist)


def o_c15(rec, world, hist):
    return O.o_progress(rec, world, hist)


ORACLES.update({"C06": o_c06, "C07": o_c07, "C10": o_c10, "C13": o_c13, "C15": o_c15})


# ---- C16 -------------------------------------------------------------------
import gc  # noqa: E402
import weakref  # noqa: E402

from model.observer import RecordingObserver  # noqa: E402


class ReleaseMonitor:
    """At every call start and every 'completed' notification: a result whose
    consumers have all finished, and which is not part of the requested
    output, must be dead."""

    def __init__(self, world, sim, rt):
        self.world = world
        self.sim = sim
        self.rt = rt
        self.nodes = ref.by_id(world)
        ds = ref.deps_star(world)
        needed = set()
        self.keep = set()
        if world.get("output") is not None:
            for r in ref.spec_refs(world["output"]):
                needed.add(r)
                needed |= ds[r]
        holders = {}
        for n in world["nodes"]:
            if n["id"] not in needed:
                continue
            for p in dict.fromkeys(ref.arg_preds(n)):
                holders.setdefault(p, set()).add(n["id"])
        self.routes = {}  # producer -> routing nodes that hold its result object
        self.final = {}   # producer -> set of call ids that ultimately receive (something holding) its result
        out_refs = set(ref.spec_refs(world["output"])) if world.get("output") is not None else set()
        for n in world["nodes"]:
            p = n["id"]
            if n["kind"] != "call" or n.get("ret", "val") != "val" or p not in needed:
                continue
            seen = set()
            stack = [p]
            final = set()
            routes = set()
            kept = p in out_refs
            while stack:
                x = stack.pop()
                for c in holders.get(x, ()):
                    if c in seen:
                        continue
                    seen.add(c)
                    if self.nodes[c]["kind"] in ("gather", "unpack", "item"):
                        if c in out_refs:
                            kept = True
                        routes.add(c)
                        stack.append(c)
                    elif self.nodes[c]["kind"] == "call":
                        final.add(c)
            if kept:
                self.keep.add(p)
            self.final[p] = final
            self.routes[p] = routes
        # a routing node (gather / unpack / getitem call inserted by uberjob) has
        # surely finished once some user call that depends on it has started
        self.after = {}
        for n in world["nodes"]:
            if n["kind"] in ("gather", "unpack", "item"):
                self.after[n["id"]] = {c["id"] for c in world["nodes"]
                                       if c["kind"] == "call" and n["id"] in ds[c["id"]] and c["id"] in needed}
        self.started = set()
        self.failed = set()
        self.pending_failed = {}
        self.candidates = []
        self.finished = set()
        self.last_ended = {}   # tid -> nid
        self.violation = None
        self.checks = 0
        self.dead_seen = 0

    def on_call_end_hint(self, tid, nid):
        self.last_ended[tid] = nid

    def on_completed(self, scope, failed=False):
        tid = self.sim.current.tid
        if scope and scope[-1] in ("getitem", "_operator.getitem") and len(scope) >= 3 and scope[-3] == "cfn":
            self.last_ended[tid] = scope[-2]       # (no call events of its own: the scope names the node)
        elif not (scope and isinstance(scope[-1], str) and scope[-1].startswith("model.build.")):
            return
        nid = self.last_ended.pop(tid, None)
        if failed:
            # the failing call is still unwinding (its frames are alive inside the except block): it has
            # finished only once this worker moves on to its next node
            if nid is not None:
                self.pending_failed[tid] = nid
            return
        if nid is not None:
            self.finished.add(nid)
        self.check("completed")

    def on_worker_moves_on(self):
        tid = self.sim.current.tid
        nid = self.pending_failed.pop(tid, None)
        if nid is None:
            # a call that ended without any notification (it raised a BaseException that is not an Exception): it has
            # finished, too, once its worker starts the next node
            nid = self.last_ended.pop(tid, None)
        if nid is not None:
            self.finished.add(nid)
            self.failed.add(nid)

    def check(self, where):
        if self.violation is not None:
            return
        self.checks += 1
        for p, final in self.final.items():
            if p in self.keep or not (final <= self.finished):
                continue
            if not final and (self.routes[p] or p not in self.finished):
                continue  # (a result nobody consumes is released as soon as its producer has finished)
            if any(not (self.after[g] & self.started) for g in self.routes[p]):
                continue  # a routing consumer may not have run yet
            w = self.rt.weak.get(p)
            if w is None:
                continue
            if w() is not None:
                gc.collect()
            if w() is not None:
                v = O.V(
                    "result-retained",
                    f"result of call {p} is still alive at a {where} boundary although all its consumers "
                    f"{sorted(final)} have finished and it is not part of the output",
                )
                if final & self.failed:
                    # the exception kept for re-raising legitimately holds the failed call's frames (and
                    # arguments); decided at the end, when we know which failure run() kept
                    if not any(c[0] == p for c in self.candidates):
                        self.candidates.append((p, set(final & self.failed), v))
                    continue
                self.violation = v
                return
            self.dead_seen += 1

    def conclude(self, retained_call):
        if self.violation is None:
            cfn = {n["id"] for n in self.world["nodes"] if n.get("cfn")}
            for p, failed, v in self.candidates:
                # (a failure inside a C-implemented callable has no frame that could hold the arguments)
                if retained_call not in failed or retained_call in cfn:
                    v["msg"] += f" (failed consumers {sorted(failed)}; the failure kept by run is call {retained_call})"
                    self.violation = v
                    break


class ReleaseObserver(RecordingObserver):
    def __init__(self, monitor):
        super().__init__("obs0")
        self.monitor = monitor

    def increment_running(self, *, section, scope):
        if section == "run":
            self.monitor.on_worker_moves_on()
        super().increment_running(section=section, scope=scope)

    def increment_completed(self, *, section, scope):
        super().increment_completed(section=section, scope=scope)
        if section == "run":
            self.monitor.on_completed(scope)

    def increment_failed(self, *, section, scope, exception):
        super().increment_failed(section=section, scope=scope, exception=exception)
        del exception
        if section == "run":
            self.monitor.on_completed(scope, failed=True)


def gen_c16(seed, tier):
    desc, rng = base_desc(seed, tier, p_nested=0.35, p_unpack=0.12, p_gather=0.1, p_const=0.05,
                          out_modes=("node", "node", "struct"))
    desc["ops"][0]["cfg"].update(max_errors=0, retry=None)
    if seed % 3 == 1:
        # consumers that fail on their first attempt(s) and succeed when retried: once they have finished - successfully -
        # nothing of the failed attempts may keep their arguments alive
        op = desc["ops"][0]
        consumers = [n["id"] for n in desc["world"]["nodes"] if n["kind"] == "call" and ref.arg_preds(n)]
        calls = {}
        for c in consumers:
            if rng.random() < 0.6:
                calls[str(c)] = dict(exc=rng.choice(["E1", "E2", "F1", "Z1"]), until=rng.choice([1, 1, 2]))
        op["faults"] = dict(calls=calls)
        op["cfg"].update(retry=rng.choice([3, 3, 4]), no_keep_exc=True, max_workers=rng.choice([1, 2, 3]))
    if seed % 3 == 0:
        # failing consumers: a failed consumer has finished, too
        op = desc["ops"][0]
        world = desc["world"]
        consumers = [n["id"] for n in world["nodes"] if n["kind"] == "call" and ref.arg_preds(n)]
        calls = {}
        for c in consumers:
            if rng.random() < 0.6:
                calls[str(c)] = dict(exc=rng.choice(["E1", "E2", "B1", "F2", "SystemExit"]))
        op["faults"] = dict(calls=calls)
        if rng.random() < 0.5:
            # consumers implemented in C that fail (no Python frame of theirs is part of the failure)
            producers = [n["id"] for n in world["nodes"] if n["kind"] == "call" and n.get("ret", "val") == "val"]
            for pr in rng.sample(producers, min(len(producers), rng.randrange(1, 3))):
                cid = max(n["id"] for n in world["nodes"]) + 1
                world["nodes"].append(dict(id=cid, kind="call", cfn=True, args=[["n", pr]], kwargs=[], deps=[], scope=[],
                                           dur=0.0, ret="val", fname="getitem", depth=0))
            op["faults"]["cfn"] = True
        op["cfg"].update(max_errors=None, no_keep_exc=True, max_workers=rng.choice([1, 2, 3]))
        # make everything needed, so that the failing consumers do run
        # (a final call that merely depends on all of them, without consuming - and so retaining - any value)
        fid = max(n["id"] for n in world["nodes"]) + 1
        world["nodes"].append(dict(id=fid, kind="call", args=[], kwargs=[], scope=[], dur=0.0, ret="val", fname="f",
                                   deps=[n["id"] for n in world["nodes"] if n["kind"] in ("call", "gather")], depth=0))
        world["output"] = ["n", fid]
    return desc


def exec_c16(prop, desc):
    import uberjob

    hist = machine.History(desc)
    hist.init_sources()
    tapes = desc.get("tapes") or {}
    holder = {}

    def hook(sim, rt, built, kwargs):
        mon = holder["mon"] = ReleaseMonitor(desc["world"], sim, rt)
        obs = ReleaseObserver(mon)
        kwargs["progress"] = uberjob.progress.Progress(lambda: obs)
        rt.on_call_start.append(lambda nid, att: (mon.started.add(nid), mon.check("call-start")))
        sim.on_event.append(lambda ev: mon.on_call_end_hint(ev[2], ev[4]) if ev[3] == "call-end" else None)

    rec = machine.run_op(hist, desc["ops"][0], 0, tape=tapes.get("0"), sim_hook=hook)
    mon = holder["mon"]
    viol = []
    who = O.identify_error_call(rec) if rec.exc is not None else None
    mon.conclude(who[1] if who and who[0] == "node" else None)
    if mon.violation is not None:
        viol.append(mon.violation)
    viol.extend(O.o_term(rec, desc["world"], hist)[:1])
    res = result(desc, hist, viol)
    res["stats"]["probes"]["release-checks"] = mon.checks
    res["stats"]["probes"]["results-confirmed-dead"] = mon.dead_seen
    return res


GEN["C16"] = gen_c16
EXEC = {"C16": exec_c16}


def execute(prop, desc):  # noqa: F811
    if prop in EXEC:
        return EXEC[prop](prop, desc)
    hist = machine.History(desc)
    hist.init_sources()
    tapes = desc.get("tapes") or {}
    viol = []
    for idx, op in enumerate(desc["ops"]):
        rec = machine.apply_op(hist, op, idx, tape=tapes.get(str(idx)))
        if rec is not None:
            viol.extend(ORACLES[prop](rec, desc["world"], hist))
            if viol:
                break
    return result(desc, hist, viol)


# ---- C13: repeated and concurrent runs of one plan, copies -------------------
def gen_c13(seed, tier):  # noqa: F811
    rng0 = worldgen.child_rng(seed, "c13")
    registry = rng0.random() < 0.5
    mode = rng0.choice(["single", "single", "concurrent", "repeat", "foreign", "physical", "empty"])
    if mode == "empty":
        # boundary: a Plan without any node, an output made of plain values only
        out = rng0.choice([["L", [["c", 1], ["c", "k"]]], ["T", [["c", None]]], ["D", [[["c", "k"], ["c", 2]]]], ["c", 5]])
        world = dict(nodes=[], stores={}, late_deps=[], output=out)
        cfg = dict(max_workers=rng0.choice([1, 2]), scheduler=None, max_errors=0, retry=None, stale_workers=None, output=True,
                   dry_run=rng0.random() < 0.5, transform=rng0.choice([None, None, "extra-call"]))
        sub = rng0.choice(["single", "concurrent", "repeat"])
        if sub == "concurrent":
            cfg["transform"] = None
        return dict(seed=seed, world=world, ops=[dict(op="run", cfg=cfg)], sched=worldgen.gen_sched(rng0), mode=sub,
                    clients=rng0.choice([2, 3]), empty=True)
    if mode in ("foreign", "physical"):
        registry = True
    desc, rng = base_desc(seed, tier, registry=registry, faults=(mode == "single" and rng0.random() < 0.5),
                          p_unpack=0.0 if registry else 0.08)
    desc["mode"] = mode
    desc["clients"] = rng0.choice([2, 3])
    op = desc["ops"][0]
    if mode == "single" and registry:
        if rng0.random() < 0.3:
            op["cfg"]["dry_run"] = True
        if rng0.random() < 0.3:
            names = sorted(desc["world"]["stores"])
            op.setdefault("faults", {})["stores"] = [dict(store=rng0.choice(names), op=rng0.choice(["mtime", "read", "write"]),
                                                          exc="E1")]
    if mode == "concurrent":
        op["cfg"].update(max_errors=0, retry=None)
        if registry and rng0.random() < 0.5:
            op["cfg"]["dry_run"] = True
        if seed % 3 == 0:
            desc["hold_scope"] = True
    return desc


class _PR:
    def __init__(self, plan, registry):
        self.plan = plan
        self.registry = registry


def exec_c13(prop, desc):
    import uberjob
    from simkit import prims

    world = desc["world"]
    hist = machine.History(desc)
    hist.init_sources()
    tapes = desc.get("tapes") or {}
    viol = []
    mode = desc.get("mode", "single")
    op = desc["ops"][0]
    outs = []

    def wrap(client, sim, rt, built, kwargs):
        if mode != "concurrent":
            return client()
        rt.check_args = True
        results = [None] * desc["clients"]

        def one(i):
            try:
                results[i] = ("ok", uberjob.run(built.plan, **kwargs))
            except BaseException as e:  # noqa
                results[i] = ("exc", e)
                if isinstance(e, sched_abort()):
                    raise

        threads = [prims.Thread(target=one, args=(i,)) for i in range(1, desc["clients"])]
        if desc.get("hold_scope"):
            # the caller keeps a scope open on its own Plan (it is still building) while other threads run that
            # Plan: their runs work on copies, which are independent of the original - nobody waits for the scope
            with built.plan.scope("held-by-the-caller"):
                for t in threads:
                    t.start()
                for t in threads:
                    t.join()
            one(0)
        else:
            for t in threads:
                t.start()
            one(0)
            for t in threads:
                t.join()
        outs.extend(results)
        return results[0][1] if results[0][0] == "ok" else None

    built0 = None
    if mode == "foreign":
        # a Registry shared with another plan: it holds entries for nodes that are not in the plan being run
        from model.build import build
        from model.stores import SimStore
        from simkit import shims

        shims.install_node_hash(desc["sched"].get("salt", 0))
        built0 = build(world)
        other = uberjob.Plan()
        for k in range(desc["clients"]):
            built0.registry.add(other.call(len, [k]), SimStore(f"foreign{k}"))
        if desc["seed"] % 2:
            built0.registry.source(other, SimStore("foreign-src"))
        if desc["seed"] % 3 == 0:
            op = dict(op, cfg=dict(op["cfg"], dry_run=True))
    rec = machine.run_op(hist, op, 0, tape=tapes.get("0"), client_wrap=wrap, built=built0)
    viol.extend(O.o_unmodified(rec, world, hist))
    viol.extend(O.o_term(rec, world, hist)[:1])
    if not viol and mode == "concurrent" and not op["cfg"].get("dry_run"):
        seen, stores = ref.evaluate(world, rec.built.objs, sources=rec.extra["sources_at_start"])
        wants = op["cfg"].get("output", True) and world.get("output") is not None
        exp = ref.eval_output(world, seen, rec.built.objs) if wants else None
        from model.core import canon, typed_equal

        for i, r in enumerate(outs):
            if r is None or r[0] != "ok":
                viol.append(O.V("concurrent-run-failed", f"client {i} of {len(outs)} concurrent runs of one plan: {r!r}"))
                break
            if not typed_equal(r[1], exp):
                viol.append(O.V("concurrent-run-value", f"client {i}: {canon(r[1])[:200]} != {canon(exp)[:200]}"))
                break
        viol.extend(v for v in (O.V(o, m) for o, m in rec.rt.violations))
    if not viol and mode == "physical":
        # the Plan handed to run is itself the physical plan a dry run returned: it is a Plan like any other
        dop = dict(op, cfg=dict(op["cfg"], dry_run=True, retry=None, max_errors=0))
        rec_d = machine.run_op(hist, dop, 1, built=rec.built)
        if rec_d.exc is None and isinstance(rec_d.result, tuple):
            phys, out_node = rec_d.result
            pr = _PR(phys, None)
            pr.ids, pr.nodes = {}, {}
            before = machine.snapshot(pr)
            outs_p = []
            for rep in range(2):
                def runner(built, kwargs, _phys=phys, _out=out_node):
                    kw = {k: v for k, v in kwargs.items() if k in ("max_workers", "scheduler", "max_errors", "progress")}
                    return uberjob.run(_phys, output=_out, **kw)

                st_snap = hist.disk.snapshot()
                rec_p = machine.run_op(hist, dict(op, cfg=dict(op["cfg"], capture_physical=False, retry=None, max_errors=0)),
                                       2 + rep, built=rec.built, runner=runner)
                hist.disk.restore(st_snap)
                d = machine.snapshot_diff(before, machine.snapshot(pr))
                if d:
                    viol.append(O.V("plan-modified", f"run changed the Plan it was given (a physical plan returned by a dry "
                                                     f"run), execution {rep + 1}: {d}"))
                    break
                outs_p.append((rec_p.exc is None, rec_p.result))
            if not viol and len(outs_p) == 2:
                from model.core import canon

                if outs_p[0][0] != outs_p[1][0] or canon(outs_p[0][1]) != canon(outs_p[1][1]):
                    viol.append(O.V("rerun-differs", f"the same physical plan run twice from the same store state gave "
                                                     f"{canon(outs_p[0][1])[:150]} then {canon(outs_p[1][1])[:150]}"))
    if not viol and mode == "repeat":
        rec2 = machine.run_op(hist, op, 1, built=rec.built)
        viol.extend(O.o_unmodified(rec2, world, hist))
        if not viol and rec.built.registry is None:
            from model.core import canon

            if canon(rec.result) != canon(rec2.result) or (rec.exc is None) != (rec2.exc is None):
                viol.append(O.V("rerun-differs", f"second run of the same plan object gave {canon(rec2.result)[:200]} "
                                                 f"({rec2.exc!r}), first {canon(rec.result)[:200]} ({rec.exc!r})"))
    if not viol and desc["seed"] % 4 == 0:
        # render (nxv.render itself is stubbed: GraphViz output is out of scope)
        import nxv

        b = rec.built
        before = machine.snapshot(b)
        real_render = nxv.render
        nxv.render = lambda graph, style, **kw: (len(graph), bool(style))
        try:
            for level in (None, 0, 1, 2):
                uberjob.render(b.plan, registry=b.registry, level=level, format="svg")
            uberjob.render(b.plan, predicate=lambda u, d: hash(u) % 2 == 0, level=1)
            uberjob.render(b.plan.graph, registry=b.registry)
            uberjob.render(b.plan.graph, level=1)
            uberjob.render(b.plan.graph, predicate=lambda u, d: hash(u) % 3 == 0, level=2)
        except Exception as e:
            viol.append(O.V("render-raised", f"render raised {e!r}"))
        finally:
            nxv.render = real_render
        d = machine.snapshot_diff(before, machine.snapshot(b))
        if d:
            viol.append(O.V("render-modified", f"render changed the caller's Plan/Registry: {d}"))
    if not viol:
        # Plan.copy / Registry.copy are independent of their originals (both directions)
        b = rec.built
        before = machine.snapshot(b)
        # (both classes spell `__copy__ = copy`: the copy module is the other documented way to get a copy)
        import copy as _copy

        via_module = desc["seed"] % 5 < 2
        mk = (lambda o: _copy.copy(o)) if via_module else (lambda o: o.copy())
        p2 = mk(b.plan)
        r2 = mk(b.registry) if b.registry is not None else None
        cp = _PR(p2, r2)
        cp.ids, cp.nodes = {}, {}
        before_copy = machine.snapshot(cp)
        x = p2.call(len, [1])
        some = next(iter(b.plan.graph.nodes()), None)
        if some is not None:
            p2.add_dependency(some, x)
            p2.graph.remove_node(some)
        if r2 is not None:
            for node, rv in list(r2.mapping.items())[:2]:
                rv.is_source = not rv.is_source
            r2.mapping.pop(next(iter(r2.mapping)), None)
        d = machine.snapshot_diff(before, machine.snapshot(b))
        if d:
            viol.append(O.V("copy-not-independent", f"mutating {'copy.copy(plan) / copy.copy(registry)' if via_module else 'Plan.copy() / Registry.copy()'} changed the original: {d}"))
        else:
            p3 = mk(b.plan)
            r3 = mk(b.registry) if b.registry is not None else None
            cp3 = _PR(p3, r3)
            s3 = machine.snapshot(cp3)
            y = b.plan.call(len, [2])
            if some is not None:
                b.plan.add_dependency(some, y)
            if b.registry is not None and b.registry.mapping:
                k0 = next(iter(b.registry.mapping))
                b.registry.mapping[k0].is_source = not b.registry.mapping[k0].is_source
            d = machine.snapshot_diff(s3, machine.snapshot(cp3))
            if d:
                viol.append(O.V("copy-not-independent", f"mutating the original changed its earlier copy: {d}"))
    return result(desc, hist, viol)


def sched_abort():
    from simkit.sched import SimAbort

    return SimAbort


GEN["C13"] = gen_c13
EXEC["C13"] = exec_c13


# ---- C01 direct: run_function_on_graph on random multigraphs -----------------
def gen_direct(seed, tier):
    rng = worldgen.child_rng(seed, "direct")
    n = rng.randrange(2, 14 if tier == "quick" else 40)
    edges = []
    for v in range(1, n):
        for _ in range(rng.choice([0, 1, 1, 2, 3])):
            u = rng.randrange(0, v)
            edges.append([u, v, rng.randrange(0, 3)])   # parallel edges through distinct keys
    return dict(seed=seed, mode="direct", n=n, edges=edges,
                workers=rng.choice([1, 2, 2, 3, 4, n + 2]),
                scheduler=rng.choice(["cheap", "cheap", "random", "default", None]),
                durs=[rng.choice([0.0, 0.0, 0.0, 1.0, 3.0]) for _ in range(n)],
                fail=sorted(rng.sample(range(n), rng.choice([0, 0, 0, 1, 2]) if n > 2 else 0)),
                max_errors=rng.choice([0, 0, 1, None]),
                sched=worldgen.gen_sched(rng, est_steps=1500))


def exec_direct(prop, desc):
    import networkx as nx
    from uberjob._errors import NodeError
    from uberjob._execution.run_function_on_graph import run_function_on_graph
    from simkit import sched as S
    from simkit import shims
    import random as _random

    n = desc["n"]
    g = nx.MultiDiGraph()
    g.add_nodes_from(range(n))
    for u, v, k in desc["edges"]:
        g.add_edge(u, v, k)
    anc = {v: nx.ancestors(g, v) for v in g}
    sc = desc["sched"]
    tapes = desc.get("tapes") or {}
    strategy = ("tape", tapes["0"]) if "0" in tapes else tuple(sc["strategy"])
    sim = S.Sim(machine.mix_seed(desc["seed"], "direct"), strategy=strategy)
    state = dict(inflight=0, max_inflight=0)
    raised = {}

    def fn(node):
        sim.log("call-start", node, 1)
        state["inflight"] += 1
        state["max_inflight"] = max(state["max_inflight"], state["inflight"])
        try:
            sim.sleep(desc["durs"][node], ("node", node))
            if node in desc["fail"]:
                e = raised[node] = RuntimeError(f"node {node}")
                sim.log("call-end", node, 1, "fail", "RuntimeError")
                raise e
            sim.log("call-end", node, 1, "ok", "")
        finally:
            state["inflight"] -= 1

    def client():
        run_function_on_graph(g, fn, worker_count=desc["workers"], max_errors=desc["max_errors"],
                              scheduler=desc["scheduler"])

    _random.seed(machine.mix_seed(desc["seed"], "random"))
    shims.reset_node_table()
    shims.install(gran=sc.get("gran", "opcode"))
    try:
        res, exc = sim.run(client)
    finally:
        shims.uninstall()
    viol = []
    starts, ends = {}, {}
    for ev in sim.events:
        if ev[3] == "call-start":
            starts.setdefault(ev[4], []).append(ev[0])
        elif ev[3] == "call-end":
            ends.setdefault(ev[4], []).append((ev[0], ev[6]))
    failed = {v for v, e in ends.items() if any(s != "ok" for _, s in e)}
    if sim.hung is not None:
        viol.append(O.V("hang", f"run_function_on_graph did not terminate: {sim.hung['why']} {sim.hung['threads'][:3]}"))
    elif sim.leaked or sim.thread_deaths:
        viol.append(O.V("thread-leak", f"threads left or died: {sim.leaked} {sim.thread_deaths}"))
    else:
        for v, ss in starts.items():
            if len(ss) != 1:
                viol.append(O.V("executed-twice", f"node {v} processed {len(ss)} times"))
                break
            for a in anc[v]:
                ok = [s for s, st in ends.get(a, ()) if st == "ok"]
                if not ok or ok[0] > ss[0]:
                    viol.append(O.V("start-after-deps", f"node {v} started at seq {ss[0]} before ancestor {a} finished ok ({ok})"))
                    break
            if viol:
                break
        if not viol and state["max_inflight"] > desc["workers"]:
            viol.append(O.V("max-workers-exceeded", f"{state['max_inflight']} nodes in flight with worker_count={desc['workers']}"))
        if not viol and not failed:
            if exc is not None:
                viol.append(O.V("spurious-error", f"no node failed but {exc!r} was raised"))
            elif set(starts) != set(range(n)):
                viol.append(O.V("needed-set", f"processed {sorted(starts)} of {n} nodes"))
        if not viol and failed:
            if not isinstance(exc, NodeError):
                viol.append(O.V("no-callerror", f"nodes {sorted(failed)} failed but run_function_on_graph "
                                                f"{'returned' if exc is None else 'raised ' + repr(exc)}"))
            elif exc.node not in failed or exc.__cause__ is not raised.get(exc.node):
                viol.append(O.V("error-names-unfailed", f"NodeError names {exc.node} / cause {exc.__cause__!r}; failed {sorted(failed)}"))
            else:
                bad = [v for v in starts if anc[v] & failed]
                if bad:
                    viol.append(O.V("downstream-of-failure", f"nodes {bad} started although an ancestor failed"))
                elif desc["max_errors"] is None:
                    should = {v for v in range(n) if not (anc[v] & set(desc["fail"]))}
                    if set(starts) != should:
                        viol.append(O.V("max-errors-none", f"processed {sorted(starts)}, expected {sorted(should)}"))
    import hashlib

    il = sim.interleaving_digest()
    wd = hashlib.sha256(repr((desc["n"], desc["edges"], desc["workers"], desc["scheduler"])).encode()).hexdigest()[:12]
    st = dict(runs=1, sub=0, steps=sim.steps, switches=sim.switches, preemptions=sim.preemptions, decisions=len(sim.tape),
              vtime=sim.now, max_steps_run=sim.steps, fired={"direct-" + str(desc["scheduler"]): 1},
              probes=dict(sim.probes), strategies=[sim.strategy.name], grans=[sc.get("gran")],
              nontrivial_keys=[wd + ":" + il] if (state["max_inflight"] >= 2 or sim.preemptions) else [],
              interleavings=[il], states=[wd + ":" + repr(sorted(failed))])
    return dict(digest=sim.digest(), violations=viol, stats=st, tapes={"0": sim.tape} if viol else None)


_gen_c01_plan = gen_c01


def gen_c01(seed, tier):  # noqa: F811
    if seed % 4 == 0:
        return gen_direct(seed, tier)
    if seed % 4 == 1:
        # dependencies routed through literals, incl. literals that depend on literals
        desc, rng = base_desc(seed, tier, p_dep=0.5, p_lit=0.4, p_lit_chain=0.3, p_parallel=0.3, p_late_dep=0.3,
                              p_nested=0.15, durs=(0.0, 0.0, 1.0, 2.0), out_modes=("struct", "struct", "node"))
        desc["ops"][0]["cfg"]["max_errors"] = 0
        return desc
    if seed % 29 == 6:
        # two or three runs of one Plan overlapping in time: every call of every run starts after ITS run's
        # dependencies (a call started too early receives None and computes another value: each run must return
        # the reference value)
        desc, rng = base_desc(seed, tier, p_dep=0.3, p_kw=0.2, p_nested=0.2, durs=(0.0, 1.0, 1.0, 2.0), out_modes=("node", "struct"))
        desc["mode"] = "concurrent"
        desc["clients"] = rng.choice([2, 2, 3])
        desc["ops"][0]["cfg"].update(max_errors=0, retry=None, max_workers=rng.choice([2, 3]))
        return desc
    if seed % 29 == 7:
        # the pool cannot start (all of) its threads: whatever the engine falls back to, a call whose dependency
        # failed never starts
        desc, rng = base_desc(seed, tier, faults=True, p_dep=0.4)
        op = desc["ops"][0]
        op["cfg"]["max_errors"] = rng.choice([1, 3, None])
        op["cfg"]["max_workers"] = rng.choice([1, 2, 3])
        op["faults"]["thread_start_fail"] = rng.choice([1, 1, 2])
        return desc
    if seed % 4 == 3 and seed % 3 == 0:
        # "finished executing successfully": a failed dependency never releases its dependents, whatever max_errors
        desc, rng = base_desc(seed, tier, faults=True, p_dep=0.4, p_lit=0.15, p_parallel=0.3, p_late_dep=0.25)
        desc["ops"][0]["cfg"]["max_errors"] = rng.choice([1, 2, 5, None])
        return desc
    if seed % 4 == 2 and seed % 3 == 0:
        # registry worlds: the order is checked on the physical plan (store writes, read-backs, barriers)
        desc, rng = base_desc(seed, tier, registry=True, p_unpack=0.0, scopes="plain", p_dep=0.4, p_late_dep=0.25)
        desc["ops"][0]["cfg"]["max_errors"] = 0
        return desc
    return _gen_c01_plan(seed, tier)


GEN["C01"] = gen_c01
_execute_plain = execute


def execute(prop, desc):  # noqa: F811
    if desc.get("mode") == "direct":
        return exec_direct(prop, desc)
    if prop in ("C01", "C02") and desc.get("mode") == "concurrent":
        return exec_c02_concurrent(prop, desc)
    if prop == "C04" and desc.get("mode") == "variant":
        return exec_c04_variant(prop, desc)
    return _execute_plain(prop, desc)


# ---- C06/C07 also over registry worlds with failing store operations ----------
from checks.history import gen_store_faults  # noqa: E402

_gen_c06_plain = gen_c06
_gen_c07_plain = gen_c07


def _registry_fault_desc(seed, tier, tag):
    rng0 = worldgen.child_rng(seed, tag)
    desc, rng = base_desc(seed, tier, registry=True, p_unpack=0.0, scopes="plain", p_dep=0.3)
    op = desc["ops"][0]
    op["faults"] = dict(calls=worldgen.gen_call_faults(rng, desc["world"], p_fail=0.15),
                        stores=gen_store_faults(rng, desc["world"], p=0.8))
    op["cfg"]["max_errors"] = rng.choice([0, 0, 1, 3, None])
    op["cfg"]["retry"] = rng.choice([None, None, 2])
    return desc


def gen_c06(seed, tier):  # noqa: F811
    if seed % 3 == 0:
        desc = _registry_fault_desc(seed, tier, "c06r")
    else:
        desc = _gen_c06_plain(seed, tier)
    if seed % 11 == 5 and not any(n.get("store") for n in desc["world"]["nodes"]):
        rng = worldgen.child_rng(seed, "c06t")
        desc["ops"][0]["faults"]["thread_start_fail"] = rng.choice([1, 1, 2])
        desc["ops"][0]["cfg"]["max_errors"] = rng.choice([1, 3, None])
    if seed % 5 == 1:
        # a bundled display whose sink is broken while failures are being reported: the error run raises is still
        # the call's own
        rng = worldgen.child_rng(seed, "c06p")
        desc["ops"][0]["cfg"]["progress"] = "bundled-sinkfail"
        desc["ops"][0]["cfg"]["sink_fails_from"] = 1
    return desc


def gen_c07(seed, tier):  # noqa: F811
    if seed % 4 == 1:
        desc = _registry_fault_desc(seed, tier, "c07r")
    else:
        desc = _gen_c07_plain(seed, tier)
    if seed % 11 == 3 and not desc.get("cyclic"):
        # `progress=[...]`: a bundled display with its update thread next to a member that cannot start / finish
        rng = worldgen.child_rng(seed, "c07p")
        op = desc["ops"][0]
        op["cfg"]["progress"] = rng.choice(["bundled-fail", "bundled-sinkfail"])
        op["cfg"]["fail_kind"] = rng.choice(["enter", "exit"])
        op["cfg"]["sink_fails_from"] = rng.choice([1, 1, 2, 3])
        for n in desc["world"]["nodes"]:
            if n["kind"] == "call" and rng.random() < 0.5:
                n["dur"] = rng.choice([1.0, 5.0, 40.0])
    if seed % 7 == 0 and not desc.get("cyclic"):
        # resource failure while the pool starts: Thread.start raises for the k-th thread
        rng = worldgen.child_rng(seed, "c07t")
        op = desc["ops"][0]
        op["cfg"]["max_workers"] = rng.choice([2, 3, 4, 6])
        op.setdefault("faults", {})["thread_start_fail"] = rng.randrange(1, op["cfg"]["max_workers"] + 2)
        for n in desc["world"]["nodes"]:
            if n["kind"] == "call" and rng.random() < 0.5:
                n["dur"] = rng.choice([1.0, 5.0])
    return desc


GEN["C06"] = gen_c06
GEN["C07"] = gen_c07


# ---- C10: work conservation at quiescent instants, rendezvous ------------------
_gen_c10_base = gen_c10


def gen_c10(seed, tier):  # noqa: F811
    rng = worldgen.child_rng(seed, "c10x")
    if seed % 13 == 9:
        # many independent calls failing at the same instant on several workers: the error limit still bounds them
        w = rng.randrange(6, 13)
        d = rng.choice([0.0, 1.0])
        nodes = [dict(id=i, kind="call", args=[], kwargs=[], deps=[], scope=[], dur=d, ret="val", fname="f", depth=0)
                 for i in range(w)]
        nodes.append(dict(id=w, kind="call", args=[["n", i] for i in range(w)], kwargs=[], deps=[], scope=[], dur=0.0,
                          ret="val", fname="h", depth=0))
        world = dict(nodes=nodes, stores={}, late_deps=[], output=["n", w])
        cfg = dict(max_workers=rng.choice([2, 2, 3, 4]), scheduler=rng.choice([None, "default", "random"]),
                   max_errors=rng.choice([1, 1, 2, 3]), retry=None, stale_workers=None, output=True)
        faults = dict(calls={str(i): dict(exc=rng.choice(["E1", "E2"])) for i in range(w)})
        sc = worldgen.gen_sched(rng)
        sc["gran"] = "opcode"
        return dict(seed=seed, world=world, ops=[dict(op="run", cfg=cfg, faults=faults)], sched=sc)
    if seed % 13 == 4:
        # run(max_workers=None): the pool is sized from the core count; a wide plan keeps it saturated, with equal
        # durations several calls finish at the same instant
        # (r roots finishing at the same instant on different workers, each releasing its own children)
        r = rng.choice([2, 2, 3])
        d = rng.choice([0.0, 1.0])
        nodes = [dict(id=i, kind="call", args=[], kwargs=[], deps=[], scope=[], dur=d, ret="val", fname="f", depth=0)
                 for i in range(r)]
        w = r
        for root in range(r):
            for _ in range(rng.randrange(2, 5)):
                nodes.append(dict(id=len(nodes), kind="call", args=[["n", root]] if rng.random() < 0.7 else [], kwargs=[],
                                  deps=[] if rng.random() < 0.7 else [root], scope=[], dur=rng.choice([d, d, 1.0]), ret="val",
                                  fname=rng.choice(["f", "g"]), depth=0))
                if not nodes[-1]["args"] and not nodes[-1]["deps"]:
                    nodes[-1]["deps"] = [root]
        w = len(nodes) - 1
        nodes.append(dict(id=w + 1, kind="call", args=[["n", i] for i in range(r, w + 1)], kwargs=[], deps=[], scope=[], dur=0.0,
                          ret="val", fname="h", depth=0))
        world = dict(nodes=nodes, stores={}, late_deps=[], output=["n", w + 1])
        cfg = dict(max_workers=None, cpu_count=rng.choice([1, 1, None, 2]), scheduler=rng.choice([None, "default", "random"]),
                   max_errors=0, retry=None, stale_workers=None, output=True)
        return dict(seed=seed, world=world, ops=[dict(op="run", cfg=cfg)], sched=worldgen.gen_sched(rng))
    if seed % 9 == 0:
        w = rng.randrange(2, 7)
        nodes = [dict(id=i, kind="call", args=[], kwargs=[], deps=[], scope=[], dur=0.0, ret="val", fname="f", depth=0,
                      rendezvous=True) for i in range(w)]
        nodes.append(dict(id=w, kind="call", args=[["n", i] for i in range(w)], kwargs=[], deps=[], scope=[], dur=0.0,
                          ret="val", fname="g", depth=0))
        world = dict(nodes=nodes, stores={}, late_deps=[], output=["n", w])
        cfg = dict(max_workers=w + rng.choice([0, 0, 1, 3]), scheduler=rng.choice([None, "default", "random"]),
                   max_errors=0, retry=None, stale_workers=None, output=True, rendezvous=w)
        return dict(seed=seed, world=world, ops=[dict(op="run", cfg=cfg)], sched=worldgen.gen_sched(rng), rendezvous=w)
    desc = _gen_c10_base(seed, tier)
    if seed % 9 in (1, 2, 3) and not any(n.get("store") for n in desc["world"]["nodes"]):
        # failure-free run with mostly non-zero durations: conservation is checked at every clock jump
        op = desc["ops"][0]
        op["faults"] = dict(calls={})
        for n in desc["world"]["nodes"]:
            if n["kind"] == "call":
                n["dur"] = rng.choice([1.0, 2.0, 3.0, 5.0, 0.0])
        op["cfg"]["conservation"] = True
        if op["cfg"].get("max_workers") is None:
            op["cfg"]["max_workers"] = 2
    return desc


GEN["C10"] = gen_c10


def exec_c10(prop, desc):
    hist = machine.History(desc)
    hist.init_sources()
    tapes = desc.get("tapes") or {}
    world = desc["world"]
    op = desc["ops"][0]
    nodes = ref.by_id(world)

    def hook(sim, rt, built, kwargs):
        if not op["cfg"].get("conservation"):
            return
        ds = ref.deps_star(world)
        need = set()
        if world.get("output") is not None and op["cfg"].get("output", True):
            for r in ref.spec_refs(world["output"]):
                need.add(r)
                need |= ds[r]
        need = {i for i in need if nodes[i]["kind"] == "call"}
        started, ok = set(), set()
        pos = [0]

        def on_quiescent(now, nxt):
            evs = sim.events
            for ev in evs[pos[0]:]:
                if ev[3] == "call-start":
                    started.add(ev[4])
                elif ev[3] == "call-end" and ev[6] == "ok":
                    ok.add(ev[4])
            pos[0] = len(evs)
            if rt.conservation is not None or not started:
                return
            ready = [c for c in need if c not in started and all(d in ok for d in ds[c] if d in need)]
            sim.probe("quiescent-instants")
            if ready and rt.inflight < op["cfg"]["max_workers"]:
                rt.conservation = (f"at virtual time {now} everything is blocked, {rt.inflight} call(s) are executing with "
                                   f"max_workers={op['cfg']['max_workers']}, yet calls {sorted(ready)} are ready and not started")

        sim.on_quiescent.append(on_quiescent)

    rec = machine.run_op(hist, op, 0, tape=tapes.get("0"), sim_hook=hook)
    viol = O.o_limits(rec, world, hist)
    if not viol and not desc.get("rendezvous"):
        # (a pool that ends up with more threads than the limit shows as threads that never get a sentinel)
        viol = [v for v in O.o_term(rec, world, hist) if v["oracle"] in ("hang", "thread-leak")][:1]
    if not viol and rec.rt.conservation:
        viol.append(O.V("not-work-conserving", rec.rt.conservation))
    if not viol and desc.get("rendezvous"):
        if rec.sim.hung is not None:
            viol.append(O.V("max-workers-not-parallel", f"{desc['rendezvous']} independent calls that wait for each other did "
                                                        f"not all run concurrently with max_workers={op['cfg']['max_workers']}: "
                                                        f"{rec.sim.hung['why']}"))
        elif rec.exc is not None:
            viol.append(O.V("rendezvous-failed", f"rendezvous run raised {rec.exc!r}"))
    return result(desc, hist, viol)


EXEC["C10"] = exec_c10

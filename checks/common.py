"""Shared helpers for check modules."""
import hashlib
import json


def world_digest(world):
    return hashlib.sha256(json.dumps(world, sort_keys=True, default=repr).encode()).hexdigest()[:12]


def stats_from_history(desc, hist, extra_fired=None):
    st = dict(runs=0, sub=0, steps=0, switches=0, preemptions=0, decisions=0, vtime=0.0, max_steps_run=0,
              fired={}, probes={}, strategies=[], grans=[], nontrivial_keys=[], interleavings=[], states=[])
    wd = world_digest(desc["world"]) if "world" in desc else "-"
    for rec in hist.records:
        sim = rec.sim
        st["runs"] += 1
        st["steps"] += sim.steps
        st["switches"] += sim.switches
        st["preemptions"] += sim.preemptions
        st["decisions"] += len(sim.tape)
        st["max_steps_run"] = max(st["max_steps_run"], sim.steps)
        for k, v in rec.rt.fired.items():
            st["fired"][k] = st["fired"].get(k, 0) + v
        for k, v in sim.probes.items():
            st["probes"][k] = st["probes"].get(k, 0) + v
        if sim.interrupts_delivered:
            st["fired"]["interrupt-delivered"] = st["fired"].get("interrupt-delivered", 0) + sim.interrupts_delivered
        if sim.clock_jumps:
            st["probes"]["clock-jumps"] = st["probes"].get("clock-jumps", 0) + sim.clock_jumps
        st["strategies"].append(sim.strategy.name)
        il = sim.interleaving_digest()
        st["interleavings"].append(il)
        if rec.rt.max_inflight >= 2 or sim.preemptions >= 1:
            st["nontrivial_keys"].append(wd + ":" + il)
        executed = sorted({ev[4] for ev in rec.events if ev[3] == "call-start"}, key=repr)
        failed = sorted({ev[4] for ev in rec.events if ev[3] == "call-end" and ev[6] != "ok"}, key=repr)
        st["states"].append(hashlib.sha256(repr((wd, executed, failed)).encode()).hexdigest()[:12])
    st["grans"].append(desc.get("sched", {}).get("gran", "-"))
    st["vtime"] = hist.disk.now
    if extra_fired:
        for k, v in extra_fired.items():
            st["fired"][k] = st["fired"].get(k, 0) + v
    return st


def unreported_hang(hist):
    """Safety net for every check: a run that did not terminate (deadlock, step cap, virtual-time cap) is never
    acceptable, whatever the property under test is looking at - unless the check itself killed the process."""
    for r in hist.records:
        sim = r.sim
        if sim.hung is not None and sim.abort_reason in ("deadlock", "step-cap", "virtual-time-cap"):
            return dict(oracle="hang", msg=f"run did not terminate: {sim.hung['why']} at step {sim.hung['steps']}; "
                                           f"threads: {sim.hung['threads'][:4]}",
                        tags={"interrupt": any(k.startswith("interrupt") for k in r.rt.fired), "safety_net": True})
    return None


_RETRIED = ("E1", "E2", "OSError", "F1", "Z1", "TimeoutError", "FileNotFoundError")   # Exceptions: what retry retries


def _transient(f, limit):
    """An injected failure that the retry policy of the run absorbs: it fails the first `until` attempts only, with
    an Exception, and the run allows more attempts than that."""
    return f.get("until") is not None and f["until"] < limit and f.get("exc", "E1") in _RETRIED


def _op_has_faults(desc, rec):
    from model.machine import retry_attempts

    f = rec.op.get("faults") or {}
    if f.get("cfn") or f.get("cut_at") or f.get("interrupt_at") or f.get("interrupt_at_op") or f.get("thread_start_fail"):
        return True
    limit = retry_attempts(rec.op.get("cfg", {}).get("retry"))
    # (failures that are all transient within the retry budget do not count: such a run has to succeed)
    if any(not _transient(x, limit) for x in (f.get("calls") or {}).values()):
        return True
    if any(not _transient(x, limit) for x in (f.get("stores") or ())):
        return True
    cfg = rec.op.get("cfg", {})
    if cfg.get("progress") in ("rec2fail", "bundled-fail", "bundled-sinkfail"):
        return True
    if desc.get("mode") == "foreign":
        return True   # (a Registry holding entries of another plan: run raises on the unchanged code - not a supported use)
    w = desc.get("world", {})
    return bool(desc.get("cyclic") or w.get("bad_unpack") or w.get("bad_gather") or w.get("back_edges")
                or w.get("back_arg_edges"))


def unreported_breakage(desc, hist):
    """Safety nets for every check, whatever the property under test is looking at: (a) a worker or display thread
    that died with an exception; (b) a run without any injected fault that raised."""
    import os

    if os.environ.get("VERIF_NO_SAFETY_NET"):
        return None
    for r in hist.records:
        sim = r.sim
        if r.aborted:
            continue
        deaths = sim.thread_deaths
        if r.op.get("cfg", {}).get("progress") in ("bundled-sinkfail", "mixed-sinkfail"):
            deaths = [d for d in deaths if "SinkError" not in d[2]]
        if deaths:
            return dict(oracle="thread-died", msg=f"a thread created by run died with an exception: {deaths[:3]}",
                        tags={"safety_net": True})
        if r.exc is not None and not _op_has_faults(desc, r):
            cause = getattr(r.exc, "__cause__", None)
            ff = r.op.get("faults") or {}
            what = ("a run whose only injected failures are transient within its retry budget"
                    if (ff.get("calls") or ff.get("stores")) else "a run without any injected fault")
            return dict(oracle="spurious-failure", msg=f"{what} raised {r.exc!r:.300} / cause {cause!r:.200}",
                        tags={"safety_net": True})
    return None


def result(desc, hist, violations, extra=None):
    if not violations:
        h = unreported_hang(hist) or unreported_breakage(desc, hist)
        if h is not None:
            violations = [h]
    res = dict(
        digest=hist.h.hexdigest(),
        violations=violations,
        stats=stats_from_history(desc, hist),
        tapes={str(r.idx): r.sim.tape for r in hist.records} if violations else None,
    )
    if extra:
        res.update(extra)
    return res


def trim_desc(desc, limit=6000):
    s = json.dumps(desc, default=repr)
    if len(s) <= limit:
        return json.loads(s)
    return {"truncated": s[:limit]}

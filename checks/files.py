"""C11: file-backed stores replace their file atomically at every failure
point.  Single-threaded enumeration of every file-operation index k of a
write x every applicable fault kind (exception, short write, death before /
after the syscall in a forked child) over a real scratch directory."""
import errno
import hashlib
import os
import pathlib
import pickle
import shutil
import tempfile
import time

from checks.oracles import V
from model import worldgen
from simkit import fs

OLD_STAMP = 978307200  # 2001-01-01
JUNK = b"junk left by a killed process"
SCRATCH_ROOT = "/dev/shm" if os.path.isdir("/dev/shm") else None


class Unpicklable:
    def __reduce__(self):
        raise pickle.PicklingError("injected: cannot pickle")


def _text(rng, n):
    alphabet = "abcdefghij klmnop\né中"
    return "".join(rng.choice(alphabet) for _ in range(n))


def make_value(kind, size, rng, bad):
    """Returns (value, kwargs for the store)."""
    if kind == "json":
        v = {"k%d" % i: [i, "x" * (size // 8 + 1), {"n": None, "f": 1.5}] for i in range(max(1, size // 64))}
        if bad:
            v["zzz_bad"] = [1, 2, object()]
        return v, {}
    if kind == "pickle":
        v = [bytes(rng.randrange(256) for _ in range(min(size, 64))) * max(1, size // 64), {"a": (1, 2)}]
        if bad:
            v.append(Unpicklable())
        return v, {}
    if kind == "text":
        v = _text(rng, size)
        if bad:
            return v[: size // 2] + "é" + v[size // 2:] + "z", {"encoding": "ascii"}
        return v.replace("é", "e").replace("中", "c") if rng.random() < 0.3 else v, {"encoding": "utf-8"}
    if kind == "binary":
        v = bytes(rng.randrange(256) for _ in range(min(size, 97))) * max(1, size // 97) if size else b""
        if bad:
            return 12345, {}
        return v, {}
    if kind == "touch":
        return ("not none" if bad else None), {}
    raise ValueError(kind)


def store_for(kind, path, kwargs):
    import uberjob.stores as S

    cls = {"json": S.JsonFileStore, "pickle": S.PickleFileStore, "text": S.TextFileStore,
           "binary": S.BinaryFileStore, "touch": S.TouchFileStore}[kind]
    return cls(path, **kwargs) if kwargs else cls(path)


def do_write(desc, path, value, kwargs):
    """Perform the write under test (a store's write, or a helper)."""
    kind = desc["kind"]
    if kind == "staged_write":
        from uberjob.stores import staged_write

        chunks = value
        with staged_write(path, desc["mode"]) as f:
            for i, c in enumerate(chunks):
                if desc["bad"] and i == len(chunks) - 1:
                    raise RuntimeError("injected: user code failed part-way")
                f.write(c)
        return
    if kind == "staged_write_path":
        from uberjob.stores import staged_write_path

        with staged_write_path(path) as sp:
            with open(sp, "wb") as f:
                f.write(value)
                if desc["bad"]:
                    raise RuntimeError("injected: user code failed part-way")
        return
    store_for(kind, path, kwargs).write(value)


def generate(prop, seed, tier):
    rng = worldgen.child_rng(seed, "c11")
    kind = rng.choice(["json", "pickle", "text", "binary", "touch", "staged_write", "staged_write_path"])
    size = rng.choice([0, 1, 10, 200, 3000, 20000] if tier == "quick" else [0, 1, 10, 200, 3000, 20000, 70000])
    return dict(
        seed=seed, kind=kind, size=size,
        path_type=rng.choice(["str", "pathlib"]),
        prior=rng.choice(["absent", "old", "old+staging"]),
        bad=rng.random() < 0.25,
        buffer_size=rng.choice([8192, 8192, 512, 64]),
        mode=rng.choice(["w", "wb"]),
        errno=rng.choice([errno.EIO, errno.ENOSPC, errno.EACCES]),
        # what the failing file operation raises: an OSError, or - Ctrl-C / sys.exit arriving during the operation -
        # a BaseException that is not an Exception
        fault_exc=rng.choice([None, None, None, "KeyboardInterrupt", "SystemExit"]),
        name=rng.choice(["t", "t", "result.pkl", "result.json", "data.v2.bin", ".hidden", "a b.txt"]),
        sibling=rng.random() < 0.3,
        # the store path is a symbolic link (outputs kept elsewhere): to a file holding the previous value, or dangling
        symlink=rng.random() < 0.15,
        symlink_loop=rng.random() < 0.3,     # (with prior "absent" only) the link points at itself: stat gives ELOOP
    )


def _value(desc):
    rng = worldgen.child_rng(desc["seed"], "value")
    kind = desc["kind"]
    if kind == "staged_write":
        n = max(1, desc["size"] // 3)
        if desc["mode"] == "wb":
            chunks = [bytes([65 + i]) * n for i in range(3)] + [b"tail"]
        else:
            chunks = [chr(65 + i) * n for i in range(3)] + ["tail"]
        return chunks, {}
    if kind == "staged_write_path":
        return bytes(rng.randrange(256) for _ in range(min(desc["size"], 50))) * max(1, desc["size"] // 50) + b"!", {}
    return make_value(kind, desc["size"], rng, desc["bad"])


def _prepare(d, desc):
    """Reset directory d to the prior state; returns target path object."""
    for name in os.listdir(d):
        os.remove(os.path.join(d, name))
    target = os.path.join(d, desc.get("name", "t"))
    if desc.get("symlink"):
        loop = desc.get("symlink_loop") and desc["prior"] == "absent"
        os.symlink(target if loop else os.path.join(d, "elsewhere-" + desc.get("name", "t")), target)   # os.utime / open follow it
    if desc["prior"] != "absent":
        with open(target, "wb") as f:
            f.write(b"OLD-VALUE-" * 7)
        os.utime(target, (OLD_STAMP, OLD_STAMP))
    if desc["prior"] == "old+staging":
        with open(target + ".STAGING", "wb") as f:
            f.write(JUNK)
    return pathlib.Path(target) if desc["path_type"] == "pathlib" else target


def _listing(d):
    return sorted(os.listdir(d))


def _read(path):
    try:
        with open(path, "rb") as f:
            return f.read()
    except FileNotFoundError:
        return None
    except OSError as e:
        if e.errno == errno.ELOOP:
            return None      # a symbolic link pointing at itself: nothing is stored there
        raise


def execute(prop, desc):
    t0 = time.time()
    d = tempfile.mkdtemp(prefix="verif-c11-", dir=SCRATCH_ROOT)
    viol = []
    fired = {}
    h = hashlib.sha256()
    n_sub = 0
    try:
        value, kwargs = _value(desc)
        old_bytes = b"OLD-VALUE-" * 7 if desc["prior"] != "absent" else None
        # unfaulted reference write (also counts the file operations)
        path = _prepare(d, desc)
        plan = fs.FaultPlan(None, desc["buffer_size"], root=d)
        fs.install(plan)
        ref_exc = None
        try:
            try:
                do_write(desc, path, value, kwargs)
            except Exception as e:
                ref_exc = e
        finally:
            fs.uninstall()
        ops = list(plan.ops)
        M = len([o for o in ops if o[0] != "remove"])
        new_bytes = _read(str(path)) if ref_exc is None else None
        h.update(repr((ops, None if new_bytes is None else hashlib.sha256(new_bytes).hexdigest(), repr(ref_exc)[:80])).encode())
        # oracle on the unfaulted (possibly serialisation-failing) write itself
        viol.extend(_judge(desc, d, str(path), old_bytes, new_bytes, raised=ref_exc, died=False,
                           where=("none", 0, ops), expect_new=ref_exc is None))
        # two stores with the same stem in one directory, one write in flight while the other happens
        if not viol and desc.get("sibling"):
            viol.extend(_sibling_scenario(desc, d, value, kwargs, new_bytes, ref_exc))
        only = desc.get("only_fault")
        todo = []
        for k in range(1, M + 1):
            opname = ops[k - 1][0]
            kinds = ["error", "die-before", "die-after"]
            if opname == "write" and ops[k - 1][1] and ops[k - 1][1] > 1:
                kinds.append("short")
                kinds.append("partial")
            for kind in kinds:
                todo.append((k, kind))
        if only is not None:
            todo = [tuple(only)]
        for k, kind in todo:
            if viol:
                break
            n_sub += 1
            path = _prepare(d, desc)
            fault = dict(k=k, kind=kind, errno=desc["errno"], exc=desc.get("fault_exc"))
            tag = ops[k - 1][0] + ":" + kind
            fired[tag] = fired.get(tag, 0) + 1
            if kind.startswith("die"):
                pid = os.fork()
                if pid == 0:
                    code = 0
                    try:
                        fs.install(fs.FaultPlan(fault, desc["buffer_size"], root=d))
                        do_write(desc, path, value, kwargs)
                    except BaseException:
                        code = 1
                    os._exit(code)
                _, status = os.waitpid(pid, 0)
                died = os.WIFEXITED(status) and os.WEXITSTATUS(status) == 137
                raised = None
                v = _judge(desc, d, str(path), old_bytes, new_bytes, raised=None, died=died,
                           where=(kind, k, ops), expect_new=(not died and ref_exc is None))
                if not v and died:
                    v = _after_death(desc, d, path)
            else:
                plan = fs.FaultPlan(fault, desc["buffer_size"], root=d)
                fs.install(plan)
                raised = None
                try:
                    try:
                        do_write(desc, path, value, kwargs)
                    except (Exception, KeyboardInterrupt, SystemExit) as e:
                        raised = e
                finally:
                    fs.uninstall()
                v = _judge(desc, d, str(path), old_bytes, new_bytes, raised=raised, died=False,
                           where=(kind, k, ops), expect_new=raised is None)
                if not v and plan.fired is not None and raised is None and ref_exc is None:
                    pass  # fault absorbed and the new value is in place: acceptable
            h.update(repr((k, kind, _listing(d), repr(raised)[:60])).encode())
            for x in v:
                x["tags"].update(k=k, fault=kind, op=ops[k - 1][0])
            if v:
                viol.extend(v)
                pin = {"only_fault": [k, kind]}
    finally:
        fs.uninstall()
        shutil.rmtree(d, ignore_errors=True)
    key = f"{desc['kind']}:{desc['prior']}:{desc['path_type']}:{desc['size']}:{desc['buffer_size']}:{desc['bad']}"
    st = dict(runs=1 + n_sub, sub=n_sub, steps=0, switches=0, preemptions=0, decisions=0, vtime=0.0, max_steps_run=0,
              fired=fired, probes={"file-ops-per-write": M}, strategies=[], grans=[],
              nontrivial_keys=[key] if M >= 3 else [], interleavings=[], states=[key + ":" + str(M)])
    res = dict(digest=h.hexdigest(), violations=viol, stats=st)
    if viol and "pin" in locals():
        res["pin"] = pin
    return res


def _sibling_scenario(desc, d, value, kwargs, new_bytes, ref_exc):
    from uberjob.stores import staged_write

    out = []
    for outer_is_sibling in (True, False):
        path = _prepare(d, dict(desc, prior="absent"))
        base = os.path.basename(str(path))
        stem = base.rsplit(".", 1)[0] if "." in base.strip(".") else base
        ext = ".txt" if not base.endswith(".txt") else ".dat"
        sib = os.path.join(os.path.dirname(str(path)), stem + ext)
        sib_path = pathlib.Path(sib) if desc["path_type"] == "pathlib" else sib
        fs.install(fs.FaultPlan(None, desc["buffer_size"], root=d))
        inner_exc = outer_exc = None
        try:
            try:
                if outer_is_sibling:
                    with staged_write(sib_path, "w") as g:
                        g.write("SIBLING-PART-1;")
                        try:
                            do_write(desc, path, value, kwargs)
                        except Exception as e:
                            inner_exc = e
                        g.write("SIBLING-PART-2")
                else:
                    # the write under test is the outer one: only possible for the helper kinds
                    if desc["kind"] != "staged_write":
                        continue
                    with staged_write(path, desc["mode"]) as f:
                        f.write(value[0])
                        with staged_write(sib_path, "w") as g:
                            g.write("SIBLING-PART-1;SIBLING-PART-2")
                        for c in value[1:]:
                            f.write(c)
            except Exception as e:
                outer_exc = e
        finally:
            fs.uninstall()
        names = _listing(d)
        where = f"sibling stores {os.path.basename(str(path))!r} and {os.path.basename(sib)!r} ({desc['path_type']} paths), " \
                f"{'sibling write in flight around the write under test' if outer_is_sibling else 'sibling written inside'}"
        if outer_exc is not None and not (desc["bad"] and not outer_is_sibling):
            out.append(V("sibling-write-failed", f"{where}: the enclosing write failed with {outer_exc!r}"))
            return out
        if inner_exc is not None and ref_exc is None:
            out.append(V("sibling-write-failed", f"{where}: the inner write failed with {inner_exc!r}"))
            return out
        if outer_is_sibling or not desc["bad"]:
            if _read(sib) != b"SIBLING-PART-1;SIBLING-PART-2":
                out.append(V("sibling-corrupted", f"{where}: the sibling's file holds {_read(sib)!r:.80}"))
                return out
        if ref_exc is None and _read(str(path)) != new_bytes:
            out.append(V("sibling-corrupted", f"{where}: the target holds {len(_read(str(path)) or b'')} bytes, expected "
                                              f"{len(new_bytes)}"))
            return out
        if [n for n in names if n.endswith(".STAGING")]:
            out.append(V("staging-left-behind", f"{where}: staging files left: {names}"))
            return out
    return out


def _judge(desc, d, path, old_bytes, new_bytes, *, raised, died, where, expect_new):
    out = []
    got = _read(path)
    names = _listing(d)
    desc_where = f"fault {where[0]} at file op {where[1]} of {[o[0] for o in where[2]]}"
    if got is not None and got != old_bytes and got != new_bytes:
        out.append(V("torn-target", f"{desc_where}: target holds {len(got)} bytes that are neither the previous "
                                    f"({None if old_bytes is None else len(old_bytes)}) nor the new value "
                                    f"({None if new_bytes is None else len(new_bytes)})"))
        return out
    if got is None and old_bytes is not None:
        out.append(V("target-lost", f"{desc_where}: the previous value disappeared"))
        return out
    if got is not None and got == old_bytes and old_bytes != new_bytes:
        if int(os.path.getmtime(path)) != OLD_STAMP:
            out.append(V("mtime-changed-without-value", f"{desc_where}: target still holds the previous value but its "
                                                         f"modified time changed"))
            return out
    if got is not None and got == new_bytes and old_bytes is not None and old_bytes != new_bytes:
        if int(os.path.getmtime(path)) == OLD_STAMP:
            out.append(V("mtime-not-updated", f"{desc_where}: new value in place but modified time is the old one"))
            return out
    if expect_new and new_bytes is not None and got != new_bytes:
        out.append(V("acknowledged-write-missing", f"{desc_where}: write returned normally but the target does not hold "
                                                   f"the new value"))
        return out
    if raised is not None and not died:
        staging = [n for n in names if n.endswith(".STAGING")]
        if staging and desc["prior"] == "old+staging" and _read(os.path.join(d, staging[0])) == JUNK:
            staging = []  # untouched leftover of an earlier death, not produced by this write
        if staging:
            out.append(V("staging-left-behind", f"{desc_where}: write failed with {raised!r} and left {staging} behind"))
            return out
    return out


def _after_death(desc, d, path):
    """A staging file left by a killed process does not disturb later writes
    or reads."""
    out = []
    kind = desc["kind"]
    try:
        if kind in ("staged_write", "staged_write_path"):
            d2 = dict(desc, bad=False)
            v2, kw2 = _value(d2)
            do_write(d2, path, v2, kw2)
            if _read(str(path)) is None:
                out.append(V("write-after-death", "target missing after a write following a death"))
        else:
            rng = worldgen.child_rng(desc["seed"], "value2")
            v2, kw2 = make_value(kind, 50, rng, False)
            st = store_for(kind, path, kw2)
            st.write(v2)
            back = st.read()
            if back != v2:
                out.append(V("read-after-death", f"after a death and a later write, read returned {back!r:.80} != {v2!r:.80}"))
            if st.get_modified_time() is None:
                out.append(V("read-after-death", "modified time is None after a successful write"))
    except Exception as e:
        out.append(V("write-after-death", f"a write/read following a death failed: {e!r}"))
    return out

"""F5: a dependency cycle made only of literal nodes is silently dissolved by
prune_plan when no registry is given; with a registry the same plan raises.
Usage: PYTHONPATH=<src> python F5_repro.py   (exit 0 = cycle reported, 3 = F5)"""
import sys

import networkx as nx
import uberjob

plan = uberjob.Plan()
a, b = plan.lit(1), plan.lit(2)
plan.add_dependency(a, b)
plan.add_dependency(b, a)
c = plan.call(int, 3)
plan.add_dependency(b, c)   # the output depends on the cycle, so the run has to examine it
try:
    print("run returned", uberjob.run(plan, output=c, progress=None), "- cycle not reported")
    sys.exit(3)
except nx.HasACycle as e:
    print("cycle reported:", e)
    sys.exit(0)

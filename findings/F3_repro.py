"""F3 outside the simulator: two scope values of one unorderable type (members
of an Enum) make the display's update thread die with TypeError; nothing more
is ever rendered, including the final state.  Real threads, real clock.
Usage: PYTHONPATH=<src> python F3_repro.py   (exit 0 = final state rendered, 3 = F3)"""
import enum
import sys
import threading

import uberjob
from uberjob.progress import Progress
from uberjob.progress._html_progress_observer import HtmlProgressObserver


class Color(enum.Enum):
    RED = 1
    GREEN = 2


died = []
threading.excepthook = lambda args: died.append(args.exc_type.__name__)
outputs = []
plan = uberjob.Plan()
with plan.scope(Color.RED):
    a = plan.call(int, 1)
with plan.scope(Color.GREEN):
    b = plan.call(int, 2)
progress = Progress(lambda: HtmlProgressObserver(outputs.append, initial_update_delay=0.01, min_update_interval=0.01,
                                                 max_update_interval=1))
print("result:", uberjob.run(plan, output=[a, b], progress=progress))
ok = bool(outputs) and b"1 / 1" in outputs[-1]
print("update thread died with:", died, "| renderings emitted:", len(outputs), "| final state shown:", ok)
sys.exit(0 if ok and not died else 3)

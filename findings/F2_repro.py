"""F2 outside the simulator: real file stores, real os.utime, process TZ.

(a) TZ=Asia/Tokyo, upstream is a file store (naive local modified time),
    downstream reports an aware UTC modified time 60 s later: nothing is out
    of date, yet the unfixed tree recomputes the downstream value.
(b) TZ=America/New_York, both file stores, instants 2 s apart straddling the
    2024-11-03 fall-back: downstream is newer, yet the unfixed tree recomputes.
Usage: PYTHONPATH=<src> python F2_repro.py   (exit 0 = correct, 3 = F2)"""
import datetime as dt
import os
import sys
import tempfile
import time

import uberjob
from uberjob.stores import JsonFileStore


class AwareStore(JsonFileStore):
    def get_modified_time(self):
        t = os.path.getmtime(self.path)
        return dt.datetime.fromtimestamp(t, dt.timezone.utc)


def scenario(tz, t_up, t_down, down_cls):
    os.environ["TZ"] = tz
    time.tzset()
    d = tempfile.mkdtemp()
    up, down = JsonFileStore(os.path.join(d, "up")), down_cls(os.path.join(d, "down"))
    up.write(1)
    down.write(2)
    os.utime(up.path, (t_up, t_up))
    os.utime(down.path, (t_down, t_down))
    calls = []
    plan, reg = uberjob.Plan(), uberjob.Registry()
    x = reg.source(plan, up)
    y = plan.call(lambda v: calls.append(v) or v + 1, x)
    reg.add(y, down)
    uberjob.run(plan, registry=reg, progress=None)
    return bool(calls)


bad = 0
base = int(dt.datetime(2024, 6, 1, 12, tzinfo=dt.timezone.utc).timestamp())
if scenario("Asia/Tokyo", base, base + 60, AwareStore):
    print("(a) recomputed although downstream is 60 s newer than upstream  [F2]")
    bad = 3
fall = int(dt.datetime(2024, 11, 3, 6, tzinfo=dt.timezone.utc).timestamp())
if scenario("America/New_York", fall - 1, fall + 1, JsonFileStore):
    print("(b) recomputed although downstream is 2 s newer (across DST fall-back)  [F2]")
    bad = 3
print("ok" if not bad else "F2 present")
sys.exit(bad)

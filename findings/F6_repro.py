"""F6 outside the simulator: real threads, a real SIGINT, real uberjob.

The very first call of the plan (running on the worker thread that was just
created) sends SIGINT to the process.  The main thread is then still inside
`threading.Thread.start()` of that worker - in `self._started.wait()`, Python
code in which CPython delivers the signal - so `start()` raises
KeyboardInterrupt although the thread exists and is executing the call.
uberjob's `worker_pool` only learns about a thread when `start()` returns:
the thread is released by a DONE sentinel but never joined, and
`uberjob.run` raises KeyboardInterrupt while the call is still executing.

Usage: PYTHONPATH=<src> python F6_repro.py
exit 0 = when run() raised, every started call had finished and no thread
created by run was alive; exit 3 = a call was still executing / a worker
thread was still alive when run() raised (F6)."""
import os
import signal
import sys
import threading
import time

import uberjob

state = dict(finished=0, started=0)


def first(i):
    state["started"] += 1
    if state["started"] == 1:
        os.kill(os.getpid(), signal.SIGINT)   # Ctrl-C while this call is executing
    time.sleep(0.5)
    state["finished"] += 1
    return i


def main():
    sys.setswitchinterval(1.0)   # the new worker keeps the GIL until it sleeps: the signal is pending before main resumes
    plan = uberjob.Plan()
    items = [plan.call(first, i) for i in range(4)]
    before = set(threading.enumerate())
    try:
        uberjob.run(plan, output=items, max_workers=3, progress=None, scheduler="default")
        print("run() returned normally: the interrupt did not land inside Thread.start(); inconclusive")
        sys.exit(0)
    except KeyboardInterrupt as e:
        import traceback

        inside_start = any(fs.name == "start" and fs.filename.endswith("threading.py")
                           for fs in traceback.extract_tb(e.__traceback__))
        alive = [t for t in threading.enumerate() if t not in before]
        started, finished = state["started"], state["finished"]
    print(f"KeyboardInterrupt raised inside Thread.start(): {inside_start}; calls started {started}, finished {finished} "
          f"when run() raised; threads created by run still alive: {len(alive)}")
    if finished < started or alive:
        print("F6: run() gave control back while a call was still executing on a worker thread it never joined")
        time.sleep(1.0)
        os._exit(3)
    print("ok: in-flight calls had finished and all threads had exited")


if __name__ == "__main__":
    main()

"""F4 outside the fault layer: os.replace fails (e.g. EACCES / EXDEV / target is
a directory) -> staged_write_path leaves <path>.STAGING behind although the
write failed by exception.  Real file system, no /verif code.
Usage: PYTHONPATH=<src> python F4_repro.py   (exit 0 = clean, 3 = staging left)"""
import os
import sys
import tempfile

from uberjob.stores import JsonFileStore

d = tempfile.mkdtemp()
target = os.path.join(d, "t")
os.mkdir(target)                      # rename onto a non-empty directory fails with a real OSError
open(os.path.join(target, "x"), "w").close()
try:
    JsonFileStore(target).write({"a": 1})
except OSError as e:
    print("write failed as expected:", type(e).__name__)
left = [n for n in os.listdir(d) if n.endswith(".STAGING")]
print("left behind:", left)
sys.exit(3 if left else 0)

"""F1 outside the simulator: real threads, real queue, real uberjob.

KeyboardInterrupt is raised from the 3rd Thread.start() of the pool (standing
in for SIGINT arriving while the pool is still starting; Thread.start blocks
on a lock and is therefore a point where CPython delivers signals).  On the
unfixed tree run() never returns: the started workers execute the whole plan
and then wait forever for a DONE sentinel nobody sends, while the caller
joins them.  Usage: PYTHONPATH=<src> python F1_repro.py  (exit 0 = returned,
exit 3 = hung)."""
import os
import sys
import threading
import time

import uberjob
import uberjob._execution.run_function_on_graph as rfg

started = [0]
orig_start = threading.Thread.start


def start(self):
    started[0] += 1
    if started[0] == 3:
        raise KeyboardInterrupt()
    return orig_start(self)


def main():
    plan = uberjob.Plan()
    items = [plan.call(time.sleep, 0.05) for _ in range(8)]
    result = {}

    def target():
        threading.Thread.start = start
        try:
            uberjob.run(plan, output=items, max_workers=6, progress=None)
            result["r"] = "returned"
        except KeyboardInterrupt:
            result["r"] = "KeyboardInterrupt"
        finally:
            threading.Thread.start = orig_start

    t = threading.Thread(target=target, daemon=True)
    orig_start(t)
    t.join(5)
    if t.is_alive():
        print("HUNG: run() did not return within 5 s after the interrupt (F1)")
        os._exit(3)
    print("run() ended with", result["r"], "- no hang")


if __name__ == "__main__":
    main()

"""F7: a call (or a store's get_modified_time / read / write) that fails with an exception whose class
forbids attribute assignment - e.g. a frozen dataclass deriving from Exception - made
`exception.__traceback__ = ...` in the failure handlers raise FrozenInstanceError: the progress observer was
told 'running' but never 'failed' (C15), and CallError.__cause__ was the FrozenInstanceError instead of the
exception the call raised (C06).  Real threads, public API only.
Usage: PYTHONPATH=<src> python F7_repro.py   (exit 0 = reported faithfully, 3 = F7)"""
import dataclasses
import sys

import uberjob
from uberjob.progress import Progress, ProgressObserver


@dataclasses.dataclass(frozen=True)
class RejectedRows(Exception):
    count: int = 0


class Rec(ProgressObserver):
    def __init__(self):
        self.ev = []

    def __enter__(self):
        self.ev.append("enter")
        return self

    def __exit__(self, *a):
        self.ev.append("exit")

    def increment_total(self, *, section, scope, amount):
        self.ev.append(("total", section, scope, amount))

    def increment_running(self, *, section, scope):
        self.ev.append(("running", section, scope))

    def increment_completed(self, *, section, scope):
        self.ev.append(("completed", section, scope))

    def increment_failed(self, *, section, scope, exception):
        self.ev.append(("failed", section, scope))


class Store(uberjob.ValueStore):
    def read(self):
        return 1

    def write(self, value):
        pass

    def get_modified_time(self):
        raise RejectedRows(7)


def load():
    raise RejectedRows(5)


bad = []
# (a) a failing call
plan = uberjob.Plan()
c = plan.call(load)
rec = Rec()
try:
    uberjob.run(plan, output=c, progress=Progress(lambda: rec), max_workers=1)
    bad.append("run did not raise")
except uberjob.CallError as e:
    if type(e.__cause__) is not RejectedRows:
        bad.append(f"call: CallError.__cause__ is {e.__cause__!r}, not the RejectedRows the call raised")
running = sum(1 for x in rec.ev if x[0] == "running")
ended = sum(1 for x in rec.ev if x[0] in ("failed", "completed"))
if running != ended:
    bad.append(f"call: observer saw {running} running but {ended} failed/completed: {rec.ev}")
# (b) a failing stale check
plan = uberjob.Plan()
c = plan.call(int, 3)
reg = uberjob.Registry()
reg.add(c, Store())
rec = Rec()
try:
    uberjob.run(plan, output=c, registry=reg, progress=Progress(lambda: rec), max_workers=1)
    bad.append("run with a failing get_modified_time did not raise")
except uberjob.CallError as e:
    if type(e.__cause__) is not RejectedRows:
        bad.append(f"stale check: CallError.__cause__ is {e.__cause__!r}, not the RejectedRows the store raised")
running = sum(1 for x in rec.ev if x[0] == "running")
ended = sum(1 for x in rec.ev if x[0] in ("failed", "completed"))
if running != ended:
    bad.append(f"stale check: observer saw {running} running but {ended} failed/completed")
for b in bad:
    print("F7:", b)
print("ok" if not bad else "FAIL")
sys.exit(3 if bad else 0)

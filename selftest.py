"""Determinism self-test: the same cases executed in fresh interpreters under
different PYTHONHASHSEED values and worker counts (first-in-process vs after
many other cases in a long-lived worker) must give identical event-log
digests (DESIGN 9)."""
import json
import os
import subprocess
import sys
import time

import runner
from checks import registry

N = {"C01": 60, "C02": 40, "C04": 40, "C06": 40, "C07": 40, "C10": 40, "C13": 30, "C15": 40, "C16": 40, "C03": 25,
     "C05": 25, "C09": 25, "C14": 20, "C08": 6, "C17": 12, "C18": 10, "C19": 40, "C20": 40, "C11": 30}


def digests(props, base_seed, jobs):
    """Run in this interpreter: returns {prop: {idx: digest}}."""
    out = {}
    for prop in props:
        spec = registry.CHECKS[prop]
        n = N.get(prop, 20)
        res = runner.run_batch(spec["module"], prop, "quick", n_cases=n, budget_s=600, jobs=jobs, base_seed=base_seed,
                               chunk=max(1, n // max(1, jobs)) if jobs > 1 else n, recheck_every=0)
        if res["harness_errors"]:
            raise SystemExit("HARNESS-ERROR " + res["harness_errors"][0])
        out[prop] = res["digests"]
    return out


def determinism(base_seed, jobs):
    t0 = time.time()
    props = sorted(N)
    configs = [("0", 16), ("1", 3), ("424242", 1)]
    results = []
    for hs, j in configs:
        env = dict(os.environ, PYTHONHASHSEED=hs, VERIF_SEED=str(base_seed))
        p = subprocess.run([sys.executable, os.path.join(runner.ROOT, "vcheck.py"), "_digests", "--jobs", str(j)],
                           env=env, capture_output=True, text=True, timeout=3000)
        if p.returncode != 0:
            print("HARNESS-ERROR digest run failed", p.stdout[-2000:], p.stderr[-2000:])
            return 2
        results.append(json.loads(p.stdout.strip().splitlines()[-1]))
    bad = []
    total = 0
    for prop in props:
        a = results[0][prop]
        for other, (hs, j) in zip(results[1:], configs[1:]):
            for idx, dg in a.items():
                total += 1
                if other[prop].get(idx) != dg:
                    bad.append((prop, idx, hs, j))
    print(f"determinism self-test: {total} digest comparisons over {len(props)} checks, "
          f"PYTHONHASHSEED x jobs = {configs}, mismatches: {len(bad)}, {time.time() - t0:.0f}s")
    if bad:
        print("HARNESS-ERROR nondeterministic cases:", bad[:10])
        return 2
    return 0

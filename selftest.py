"""Determinism self-test: the same cases executed in fresh interpreters under
different PYTHONHASHSEED values and worker counts (first-in-process vs after
many other cases in a long-lived worker) must give identical event-log
digests (DESIGN 9)."""
import json
import os
import subprocess
import sys
import time

import runner
from checks import registry

N = {"C01": 60, "C02": 40, "C04": 40, "C06": 40, "C07": 40, "C10": 40, "C13": 30, "C15": 40, "C16": 40, "C03": 25,
     "C05": 25, "C09": 25, "C14": 20, "C08": 6, "C17": 12, "C18": 10, "C19": 40, "C20": 40, "C11": 30}


def digests(props, base_seed, jobs):
    """Run in this interpreter: returns {prop: {idx: digest}}."""
    out = {}
    for prop in props:
        spec = registry.CHECKS[prop]
        n = N.get(prop, 20)
        res = runner.run_batch(spec["module"], prop, "quick", n_cases=n, budget_s=600, jobs=jobs, base_seed=base_seed,
                               chunk=max(1, n // max(1, jobs)) if jobs > 1 else n, recheck_every=0)
        if res["harness_errors"]:
            raise SystemExit("HARNESS-ERROR " + res["harness_errors"][0])
        out[prop] = res["digests"]
    return out


def determinism(base_seed, jobs):
    t0 = time.time()
    props = sorted(N)
    configs = [("0", 16), ("1", 3), ("424242", 1)]
    results = []
    for hs, j in configs:
        env = dict(os.environ, PYTHONHASHSEED=hs, VERIF_SEED=str(base_seed))
        p = subprocess.run([sys.executable, os.path.join(runner.ROOT, "vcheck.py"), "_digests", "--jobs", str(j)],
                           env=env, capture_output=True, text=True, timeout=3000)
        if p.returncode != 0:
            print("HARNESS-ERROR digest run failed", p.stdout[-2000:], p.stderr[-2000:])
            return 2
        results.append(json.loads(p.stdout.strip().splitlines()[-1]))
    bad = []
    total = 0
    for prop in props:
        a = results[0][prop]
        for other, (hs, j) in zip(results[1:], configs[1:]):
            for idx, dg in a.items():
                total += 1
                if other[prop].get(idx) != dg:
                    bad.append((prop, idx, hs, j))
    print(f"determinism self-test: {total} digest comparisons over {len(props)} checks, "
          f"PYTHONHASHSEED x jobs = {configs}, mismatches: {len(bad)}, {time.time() - t0:.0f}s")
    if bad:
        print("HARNESS-ERROR nondeterministic cases:", bad[:10])
        return 2
    return 0


# --------------------------------------------------------------------------
# fidelity of the simulated primitives: small programs whose result does not
# depend on the schedule are executed once with the real `threading` / `queue`
# modules and real threads, and many times under the simulator (seeded
# schedules); the results must be identical.
# --------------------------------------------------------------------------
def _scenarios():
    def mutex(T, Q, sleep):
        lock, state = T.Lock(), dict(n=0, holders=0, max_holders=0)

        def work():
            for _ in range(5):
                with lock:
                    state["holders"] += 1
                    state["max_holders"] = max(state["max_holders"], state["holders"])
                    v = state["n"]
                    sleep(0.001)
                    state["n"] = v + 1
                    state["holders"] -= 1

        ts = [T.Thread(target=work) for _ in range(4)]
        [t.start() for t in ts]
        [t.join() for t in ts]
        return state["n"], state["max_holders"], lock.locked()

    def prodcons(T, Q, sleep):
        q, got, glock = Q.Queue(), [], T.Lock()

        def prod(k):
            for i in range(5):
                q.put((k, i))
                sleep(0.0005)

        def cons():
            while True:
                x = q.get()
                try:
                    if x is None:
                        return
                    with glock:
                        got.append(x)
                finally:
                    q.task_done()

        cs = [T.Thread(target=cons) for _ in range(2)]
        ps = [T.Thread(target=prod, args=(k,)) for k in range(3)]
        [t.start() for t in cs + ps]
        [t.join() for t in ps]
        q.join()
        for _ in cs:
            q.put(None)
        [t.join() for t in cs]
        return sorted(got), q.unfinished_tasks, q.qsize(), [t.is_alive() for t in cs]

    def cond_timeout(T, Q, sleep):
        c = T.Condition()
        with c:
            r = c.wait(0.02)
            owned_after = True
        with c:
            r2 = c.wait_for(lambda: False, 0.02)
        return r, owned_after, r2

    def notify_n(T, Q, sleep):
        c, res, ready = T.Condition(), [], []

        def waiter():
            with c:
                ready.append(1)
                res.append(c.wait(1.5))

        ts = [T.Thread(target=waiter) for _ in range(3)]
        [t.start() for t in ts]
        while True:
            with c:
                if len(ready) == 3:
                    break
            sleep(0.005)
        sleep(0.05)
        with c:
            c.notify(2)
        [t.join() for t in ts]
        return sorted(res)

    def event(T, Q, sleep):
        e = T.Event()
        a = e.wait(0.01)
        out = []

        def w():
            out.append(e.wait(2.0))

        t = T.Thread(target=w)
        t.start()
        sleep(0.02)
        e.set()
        t.join()
        b = e.is_set()
        e.clear()
        return a, out, b, e.is_set(), e.wait(0)

    def rlock(T, Q, sleep):
        r, held, done, out = T.RLock(), T.Event(), T.Event(), []

        def a():
            r.acquire()
            r.acquire()
            held.set()
            done.wait(2.0)
            r.release()
            r.release()

        ta = T.Thread(target=a)
        ta.start()
        held.wait(2.0)
        out.append(r.acquire(blocking=False))
        out.append(r.acquire(timeout=0.02))
        done.set()
        ta.join()
        out.append(r.acquire(blocking=False))
        r.release()
        try:
            r.release()
            out.append("no error")
        except RuntimeError:
            out.append("RuntimeError")
        return out

    def misuse(T, Q, sleep):
        out = []
        for f in (lambda: T.Lock().release(), lambda: T.Condition().wait(0.01), lambda: T.Condition().notify(),
                  lambda: T.Thread(target=lambda: None).join()):
            try:
                f()
                out.append("no error")
            except RuntimeError:
                out.append("RuntimeError")
        t = T.Thread(target=lambda: None)
        t.start()
        t.join()
        try:
            t.start()
            out.append("no error")
        except RuntimeError:
            out.append("RuntimeError")
        return out

    def lock_timeout(T, Q, sleep):
        lk, held, go, out = T.Lock(), T.Event(), T.Event(), []

        def a():
            with lk:
                held.set()
                go.wait(2.0)

        t = T.Thread(target=a)
        t.start()
        held.wait(2.0)
        out.append(lk.acquire(timeout=0.02))
        out.append(lk.acquire(False))
        out.append(lk.locked())
        go.set()
        t.join()
        out.append(lk.acquire(timeout=1.0))
        lk.release()
        return out

    def join_timeout(T, Q, sleep):
        go = T.Event()
        t = T.Thread(target=lambda: go.wait(2.0))
        t.start()
        t.join(0.02)
        a = t.is_alive()
        go.set()
        t.join()
        return a, t.is_alive()

    def queue_misc(T, Q, sleep):
        q, out = Q.Queue(), []
        try:
            q.get(timeout=0.02)
        except Q.Empty:
            out.append("Empty")
        try:
            q.get_nowait()
        except Q.Empty:
            out.append("Empty")
        q.put(1)
        out.append(q.get_nowait())
        q.task_done()
        try:
            q.task_done()
        except ValueError:
            out.append("ValueError")
        b = Q.Queue(maxsize=1)
        b.put(1)
        try:
            b.put(2, timeout=0.02)
        except Q.Full:
            out.append("Full")
        flag = []

        def worker():
            b.get()
            sleep(0.03)
            flag.append("worked")
            b.task_done()

        t = T.Thread(target=worker)
        t.start()
        b.join()
        out.append(list(flag))
        t.join()
        return out

    def semaphore(T, Q, sleep):
        sem, lock, st = T.Semaphore(2), T.Lock(), dict(inside=0, most=0, done=0)

        def work():
            for _ in range(3):
                with sem:
                    with lock:
                        st["inside"] += 1
                        st["most"] = max(st["most"], st["inside"])
                    sleep(0.002)
                    with lock:
                        st["inside"] -= 1
                        st["done"] += 1

        ts = [T.Thread(target=work) for _ in range(4)]
        [t.start() for t in ts]
        [t.join() for t in ts]
        b = T.BoundedSemaphore(1)
        out = [st["done"], st["most"] <= 2, sem.acquire(blocking=False), sem.acquire(blocking=False), sem.acquire(blocking=False),
               sem.acquire(timeout=0.01)]
        try:
            b.release()
        except ValueError:
            out.append("ValueError")
        return out

    def barrier(T, Q, sleep):
        acts, idx, lock = [], [], T.Lock()
        bar = T.Barrier(3, action=lambda: acts.append(len(idx)))

        def work(k):
            for r in range(2):
                sleep(0.001 * k)
                i = bar.wait()
                with lock:
                    idx.append((r, i))

        ts = [T.Thread(target=work, args=(k,)) for k in range(3)]
        [t.start() for t in ts]
        [t.join() for t in ts]
        lone = T.Barrier(2)
        try:
            lone.wait(timeout=0.01)
            broke = False
        except T.BrokenBarrierError:
            broke = True
        return sorted(idx), len(acts), acts[0], broke, lone.broken, bar.parties

    def timer(T, Q, sleep):
        out, ev = [], T.Event()
        t1 = T.Timer(0.02, lambda: (out.append("fired"), ev.set()))
        t2 = T.Timer(0.05, lambda: out.append("must not fire"))
        t1.start()
        t2.start()
        t2.cancel()
        ev.wait(2)
        t1.join()
        t2.join()
        return out, t1.is_alive(), t2.is_alive()

    def simple_queue(T, Q, sleep):
        q, got = Q.SimpleQueue(), []

        def prod(k):
            for i in range(4):
                q.put(10 * k + i)
                sleep(0.0005)

        def cons():
            for _ in range(12):
                got.append(q.get())

        ts = [T.Thread(target=prod, args=(k,)) for k in range(3)] + [T.Thread(target=cons)]
        [t.start() for t in ts]
        [t.join() for t in ts]
        try:
            q.get(timeout=0.01)
            e = False
        except Q.Empty:
            e = True
        return sorted(got), q.empty(), e

    def local(T, Q, sleep):
        loc, seen, lock = T.local(), [], T.Lock()
        loc.v = "main"

        def work(k):
            has = hasattr(loc, "v")
            loc.v = k
            sleep(0.001)
            with lock:
                seen.append((k, has, loc.v))

        ts = [T.Thread(target=work, args=(k,)) for k in range(3)]
        [t.start() for t in ts]
        [t.join() for t in ts]
        return sorted(seen), loc.v

    return dict(mutex=mutex, prodcons=prodcons, cond_timeout=cond_timeout, notify_n=notify_n, event=event, rlock=rlock,
                misuse=misuse, lock_timeout=lock_timeout, join_timeout=join_timeout, queue_misc=queue_misc,
                semaphore=semaphore, barrier=barrier, timer=timer, simple_queue=simple_queue, local=local)


def prims_fidelity(base_seed, n_seeds=120):
    import queue
    import random
    import threading
    import time as _time

    from simkit import prims, sched, shims

    t0 = time.time()
    scen = _scenarios()
    real = {k: f(threading, queue, _time.sleep) for k, f in scen.items()}
    bad, runs = [], 0
    for s in range(n_seeds):
        rng = random.Random(f"prims-{base_seed}-{s}")
        strategy = rng.choice([("rw", 0.0, 0.1), ("rw", 0.0, 0.5), ("rw", 0.0, 0.9), ("rtb",), ("pct", 2, 200), ("pct", 5, 60)])
        for name, f in scen.items():
            sim = sched.Sim(rng.randrange(1 << 40), strategy=strategy, max_steps=200_000)
            shims.install(gran="sync")
            try:
                res, exc = sim.run(lambda: f(prims.THREADING, queue, sim.sleep))
            finally:
                shims.uninstall()
            runs += 1
            if exc is not None or sim.hung is not None or sim.leaked or sim.thread_deaths or res != real[name]:
                bad.append((name, s, strategy, repr(res)[:200], repr(exc), sim.hung, sim.thread_deaths))
    print(f"primitive fidelity self-test: {len(scen)} programs x {n_seeds} seeded schedules = {runs} simulated runs compared "
          f"with one real-thread execution each, mismatches: {len(bad)}, {time.time() - t0:.0f}s")
    for b in bad[:8]:
        print("  MISMATCH", b, "real:", repr(real[b[0]])[:200])
    fs_bad = fs_seam()
    return 2 if bad or fs_bad else 0


def fs_seam():
    """The file fault layer sees every way of writing under its root (builtin open, pathlib, shutil, tempfile,
    descriptor-level os functions), leaves every other path alone, produces what the real functions produce, and
    leaves nothing patched behind."""
    import builtins
    import io
    import os
    import pathlib
    import shutil
    import tempfile

    from simkit import fs

    bad = []
    before = (builtins.open, io.open, os.replace, os.rename, os.remove, os.unlink, os.open, os.write, os.close,
              shutil._USE_CP_SENDFILE)
    root = tempfile.mkdtemp(prefix="verif-fs-selftest-", dir="/dev/shm" if os.path.isdir("/dev/shm") else None)
    other = tempfile.mkdtemp(prefix="verif-fs-selftest-other-")
    try:
        plan = fs.FaultPlan(None, 16, root=root)
        fs.install(plan)
        try:
            def ops_of(f):
                n = len(plan.ops)
                f()
                return [o[0] for o in plan.ops[n:]]

            a, b = os.path.join(root, "a"), os.path.join(root, "b")
            expect = {
                "builtin open": (lambda: open(a, "wb").close(), ["open", "close"]),
                "text write 40 bytes / 16-byte buffer": (lambda: open(a, "w").__exit__(None, None, None) or _w(a, "x" * 40), None),
                "pathlib write_bytes": (lambda: pathlib.Path(a).write_bytes(b"12345"), ["open", "write", "close"]),
                "pathlib replace": (lambda: pathlib.Path(a).replace(b), ["replace"]),
                "os.rename": (lambda: os.rename(b, a), ["rename"]),
                "shutil.copyfile": (lambda: shutil.copyfile(a, b), ["open", "write", "close"]),
                "shutil.move": (lambda: shutil.move(b, os.path.join(root, "c")), ["rename"]),
                "os.open/os.write/os.close": (lambda: _fd(os, os.path.join(root, "d")), ["open", "write", "close"]),
                "tempfile in root": (lambda: _tmp(tempfile, root), ["open", "write", "close"]),
                "os.unlink": (lambda: os.unlink(a), ["remove"]),
                "outside the root": (lambda: (open(os.path.join(other, "x"), "wb").close(),
                                             shutil.copyfile(os.path.join(other, "x"), os.path.join(other, "y")),
                                             os.replace(os.path.join(other, "y"), os.path.join(other, "z"))), []),
                "reading inside the root": (lambda: open(os.path.join(root, "c"), "rb").read(), []),
            }
            for name, (f, want) in expect.items():
                got = ops_of(f)
                if want is not None and got != want:
                    bad.append((name, got, want))
            if open(os.path.join(root, "c"), "rb").read() != b"12345" or open(os.path.join(root, "d"), "rb").read() != b"fd-level":
                bad.append(("content", None, None))
        finally:
            fs.uninstall()
        after = (builtins.open, io.open, os.replace, os.rename, os.remove, os.unlink, os.open, os.write, os.close,
                 shutil._USE_CP_SENDFILE)
        if after != before:
            bad.append(("not restored", None, None))
        # a fault at the k-th operation of a copy made by shutil: the error surfaces, the destination is torn
        with open(os.path.join(root, "src"), "wb") as f:
            f.write(b"z" * 100)
        plan = fs.FaultPlan(dict(k=2, kind="short", errno=28), 16, root=root)
        fs.install(plan)
        try:
            try:
                shutil.copyfile(os.path.join(root, "src"), os.path.join(root, "dst"))
                bad.append(("fault not raised", None, None))
            except OSError as e:
                if e.errno != 28:
                    bad.append(("wrong errno", e.errno, 28))
        finally:
            fs.uninstall()
        n = os.path.getsize(os.path.join(root, "dst"))
        if not 0 < n < 100:
            bad.append(("short write inside shutil.copyfile", n, "0 < n < 100"))
    finally:
        shutil.rmtree(root, ignore_errors=True)
        shutil.rmtree(other, ignore_errors=True)
    print(f"file seam self-test: builtin open, pathlib, shutil, tempfile and descriptor-level writes under the root are "
          f"seen as raw operations, other paths untouched, patches restored: problems: {len(bad)}")
    for x in bad:
        print("  PROBLEM", x)
    return bad


def _w(path, text):
    with open(path, "w") as f:
        f.write(text)


def _fd(os, path):
    fd = os.open(path, os.O_WRONLY | os.O_CREAT | os.O_TRUNC, 0o644)
    os.write(fd, b"fd-level")
    os.close(fd)


def _tmp(tempfile, root):
    with tempfile.NamedTemporaryFile(dir=root, delete=False) as f:
        f.write(b"tmp")


# --------------------------------------------------------------------------
# reach: nothing the generators used to produce has silently stopped being produced
# --------------------------------------------------------------------------
REACH_MIN = 8   # a feature counts as "established" when the baseline run saw it in at least this many cases


def reach(update=False):
    """Compares the coverage of the evidence files of the last quick runs (fault kinds that fired, probes,
    scenario features of the generated cases) with the committed baseline `reach_baseline.json`: everything the
    baseline saw at least REACH_MIN times must still be seen.  A generator edit that makes a scenario template
    unreachable (it happened: DESIGN 13, C-14) shows here; the registered checks themselves stay silent about it
    because nothing fails when nothing is tried.  `--update` rewrites the baseline from the current evidence."""
    import glob
    import json
    import os

    root = os.path.dirname(os.path.abspath(__file__))
    cur = {}
    for f in sorted(glob.glob(os.path.join(root, "evidence", "C??.json"))):
        e = json.load(open(f))
        c = e["coverage"]
        cur[e["property_id"]] = {
            "tier": e["tier"],
            "fault_kinds_fired": c.get("fault_kinds_fired", {}),
            "probes": c.get("probes", {}),
            "scenario_features": c.get("scenario_features", {}),
        }
    path = os.path.join(root, "reach_baseline.json")
    if update:
        base = {p: {k: {n: v for n, v in d[k].items() if v >= REACH_MIN} for k in ("fault_kinds_fired", "probes", "scenario_features")}
                for p, d in cur.items()}
        with open(path, "w") as f:
            json.dump(base, f, indent=0, sort_keys=True)
        print(f"reach baseline rewritten: {sum(len(x) for d in base.values() for x in d.values())} established features "
              f"over {len(base)} properties")
        return 0
    base = json.load(open(path))
    lost = []
    n = 0
    for p, d in sorted(base.items()):
        for k, names in d.items():
            for name in names:
                n += 1
                if not cur.get(p, {}).get(k, {}).get(name):
                    lost.append(f"{p} {k} {name!r} (baseline: {names[name]} cases)")
    for x in lost:
        print("REACH-LOST", x)
    print(f"reach self-test: {n} established features over {len(base)} properties, lost: {len(lost)}")
    return 1 if lost else 0

"""Structure-aware delta debugging of run descriptions and schedule tapes
(DESIGN 7).  Every candidate is executed in a forked process and accepted
only if the same violation signature (property, oracle) recurs."""
import copy
import json
import time

import runner
from model import ref


def _sig(res, oracle):
    if res is None:
        return False
    return any(v["oracle"] == oracle for v in res.get("violations", ()))


class Shrinker:
    def __init__(self, modname, prop, oracle, budget_s=120.0):
        self.modname = modname
        self.prop = prop
        self.oracle = oracle
        self.deadline = time.time() + budget_s
        self.tries = 0
        self.pool = runner.Pool(1)

    def close(self):
        self.pool.close()

    def fails(self, desc):
        if time.time() > self.deadline:
            return None
        self.tries += 1
        try:
            fut = self.pool.ex.submit(runner._exec_one, self.modname, self.prop, desc)
            res = fut.result(timeout=120)
        except Exception:
            self.pool.close()
            self.pool = runner.Pool(1)
            return None
        return res if _sig(res, self.oracle) else None


def candidates_structure(desc):
    """Yield simpler descriptions (one change each), most drastic first."""
    ops = desc.get("ops")
    if ops and len(ops) > 1:
        for i in range(len(ops) - 1, -1, -1):
            d = copy.deepcopy(desc)
            del d["ops"][i]
            d.pop("tapes", None)
            yield d
    world = desc.get("world")
    if world:
        used = set()
        for n in world["nodes"]:
            used.update(ref.arg_preds(n))
            used.update(n.get("deps", ()))
            if n["kind"] == "unpack":
                used.update(n["items"])
        for u, v in world.get("late_deps", ()):
            used.add(u)
            used.add(v)
        writers = {n.get("writes") for n in world["nodes"]}
        for n in reversed(world["nodes"]):
            i = n["id"]
            if n["kind"] == "item":
                continue
            out_refs = set(ref.spec_refs(world["output"])) if world.get("output") else set()
            if i in used or i in out_refs:
                continue
            d = copy.deepcopy(desc)
            drop = {i}
            if n["kind"] == "unpack":
                if any(it in used or it in out_refs for it in n["items"]):
                    continue
                drop |= set(n["items"])
            d["world"]["nodes"] = [m for m in d["world"]["nodes"] if m["id"] not in drop]
            for op in d.get("ops", ()):
                f = op.get("faults", {}).get("calls")
                if f:
                    for x in drop:
                        f.pop(str(x), None)
            d.pop("tapes", None)
            yield d
        if world.get("output") is not None:
            d = copy.deepcopy(desc)
            refs = ref.spec_refs(world["output"])
            if world["output"][0] != "n" and refs:
                d["world"]["output"] = ["n", refs[0]]
                d.pop("tapes", None)
                yield d
        for lst in ("late_deps",):
            for k in range(len(world.get(lst, ()))):
                d = copy.deepcopy(desc)
                del d["world"][lst][k]
                d.pop("tapes", None)
                yield d
        for n in world["nodes"]:
            if n.get("dur"):
                d = copy.deepcopy(desc)
                for m in d["world"]["nodes"]:
                    if m["id"] == n["id"]:
                        m["dur"] = 0.0
                d.pop("tapes", None)
                yield d
            if n.get("deps"):
                for k in range(len(n["deps"])):
                    d = copy.deepcopy(desc)
                    for m in d["world"]["nodes"]:
                        if m["id"] == n["id"]:
                            del m["deps"][k]
                    d.pop("tapes", None)
                    yield d
            if n.get("scope"):
                d = copy.deepcopy(desc)
                for m in d["world"]["nodes"]:
                    if m["id"] == n["id"]:
                        m["scope"] = []
                d.pop("tapes", None)
                yield d
    for oi, op in enumerate(desc.get("ops", ())):
        f = op.get("faults", {})
        for k in list(f.get("calls", {})):
            d = copy.deepcopy(desc)
            del d["ops"][oi]["faults"]["calls"][k]
            d.pop("tapes", None)
            yield d
        for k in range(len(f.get("stores", ()))):
            d = copy.deepcopy(desc)
            del d["ops"][oi]["faults"]["stores"][k]
            d.pop("tapes", None)
            yield d
        cfg = op.get("cfg", {})
        if cfg.get("max_workers", 1) and cfg.get("max_workers", 1) > 1:
            d = copy.deepcopy(desc)
            d["ops"][oi]["cfg"]["max_workers"] = max(1, cfg["max_workers"] // 2)
            d.pop("tapes", None)
            yield d
        for key, simple in (("retry", None), ("scheduler", None), ("stale_workers", None)):
            if cfg.get(key) is not None:
                d = copy.deepcopy(desc)
                d["ops"][oi]["cfg"][key] = simple
                d.pop("tapes", None)
                yield d


def shrink_structure(sh, desc, res0=None):
    """Returns (description, the result of executing exactly that description)."""
    improved = True
    best = res0
    while improved and time.time() < sh.deadline:
        improved = False
        for cand in candidates_structure(desc):
            res = sh.fails(cand)
            if res is not None:
                desc, best = cand, res
                improved = True
                break
    return desc, best


def shrink_tape(sh, desc, res):
    """Pin the schedule to its tape, then remove non-default choices."""
    tapes = res.get("tapes")
    if not tapes:
        return desc, res
    d = copy.deepcopy(desc)
    d["tapes"] = tapes
    r = sh.fails(d)
    if r is None:
        return desc, res  # tape replay does not reproduce (should not happen)
    desc, res = d, r
    for key in list(desc["tapes"]):
        tape = desc["tapes"][key]
        n = 2
        while len(tape) >= 1 and time.time() < sh.deadline:
            chunk = max(1, len(tape) // n)
            removed = False
            for start in range(0, len(tape), chunk):
                cand_t = tape[:start] + tape[start + chunk:]
                d = copy.deepcopy(desc)
                d["tapes"][key] = cand_t
                r = sh.fails(d)
                if r is not None:
                    tape = cand_t
                    desc, res = d, r
                    removed = True
                    break
            if not removed:
                if chunk == 1:
                    break
                n = min(len(tape), n * 2)
            else:
                n = max(2, n - 1)
    return desc, res


def minimise(modname, prop, desc, violation, budget_s=120.0):
    sh = Shrinker(modname, prop, violation["oracle"], budget_s)
    try:
        res0 = sh.fails(desc)
        if res0 is None:
            return desc, None, {"tries": sh.tries, "reproduced": False}
        # (the result kept next to a description is always the result of executing that very description: the
        #  digest written into the replay file must be the one a replay computes)
        d, res = shrink_structure(sh, desc, res0)
        d2, res2 = shrink_tape(sh, d, res)
        return d2, res2, {"tries": sh.tries, "reproduced": True}
    finally:
        sh.close()

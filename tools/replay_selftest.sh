#!/bin/bash
# usage: tools/replay_selftest.sh <seeded id> <prop>  -> runs the quick check WITH minimisation against a scratch
# worktree carrying the seeded change, then replays the written file twice (must reproduce, digest must match)
M=$1; P=$2
W=$(mktemp -d /tmp/replay-XXXXXX)
git -C /repo worktree add -q --detach "$W/wt" HEAD || exit 9
git -C "$W/wt" apply "/verif/seeded/$M/patch.diff" || exit 9
export UBERJOB_SRC=$W/wt/src VERIF_JOBS=${VERIF_JOBS:-2} VERIF_SHRINK_S=${VERIF_SHRINK_S:-60}
out=$(/verif/check $P --tier quick 2>&1 | tail -3)
f=$(echo "$out" | sed -n 's/^VIOLATION property=.* replay=//p')
echo "$M $P: $(echo "$out" | grep -c '^VIOLATION') violation line(s); replay file $f"
if [ -n "$f" ]; then
  python3 - "$f" <<'PY'
import json,sys
d=json.load(open(sys.argv[1]))
desc=d['desc']
print("   oracle:", d['oracle'], "| minimised:", d.get('minimised'), "| nodes:", len(desc.get('world',{}).get('nodes',[])) if isinstance(desc,dict) and 'world' in desc else '-', "| ops:", len(desc.get('ops',[])) if isinstance(desc,dict) else '-', "| tape lens:", {k:len(v) for k,v in (desc.get('tapes') or {}).items()} if isinstance(desc,dict) else '-')
PY
  for i in 1 2; do /verif/check $P --replay "$f" 2>&1 | grep -E "^replayed|^replay did not|^VIOLATION" | head -2 | cut -c1-160; done
  echo "   on the clean tree: $(UBERJOB_SRC=/repo/src /verif/check $P --replay "$f" 2>&1 | grep -E '^replay|^VIOLATION' | head -1 | cut -c1-120)"
fi
git -C /repo worktree remove --force "$W/wt"; rm -rf "$W"

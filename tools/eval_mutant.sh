#!/bin/bash
# usage: tools/eval_mutant.sh <mutant dir> <label> <props...>   -> /tmp/mutlog/<label>.txt
M=$1; L=$2; shift 2
{
  echo "== $L ($M) =="
  /verif/tools/confirm_mutant.sh "$M"
  python3 /verif/tools/try_mutant.py "$M/patch.diff" "$@" 2>&1 | cut -c1-600
} > /tmp/mutlog/$L.txt 2>&1

"""Regenerate MANIFEST.json from checks/registry.py (run from /verif)."""
import json
import os
import sys

sys.path.insert(0, os.path.dirname(os.path.dirname(os.path.abspath(__file__))))
os.environ.setdefault("UBERJOB_SRC", "/repo/src")
sys.path.insert(0, "/repo/src")
from checks import registry  # noqa: E402

ALL = [f"C{i:02d}" for i in range(1, 21)]
NA = {
    "C12": "quantifier is inputs-only (read(write(v)) == v for every value): a pure function of the input with no "
           "schedule, clock, fault or crash point; generating values is property-based testing, not simulation "
           "(DESIGN section 6); its only clock-shaped clause is decided under C18",
}
TEXT = registry.LEVEL_TEXT

checks = []
for p in ALL:
    if p not in registry.CHECKS:
        continue
    spec = registry.CHECKS[p]
    checks.append({
        "property_id": p,
        "quick_cmd": f"./check {p} --tier quick",
        "thorough_cmd": f"./check {p} --tier thorough",
        "evidence_file": f"/verif/evidence/{p}.json",
        "replay_cmd_template": f"./check {p} --replay {{path}}",
        "engine": spec.get("engine", "simkit"),
        "level_claimed": {
            "category": spec["level"],
            "text": TEXT.get(p, TEXT["default"]),
            "design_ref": f"DESIGN.md section 5, {p}",
        },
        "level_note": spec.get("note", registry.DEFAULT_NOTE),
        "technique": spec.get("technique", "deterministic simulation with fault injection: seeded schedule and fault search over simulated uberjob runs"),
    })
na = []
for p in ALL:
    if p not in registry.CHECKS:
        na.append({"property_id": p, "reason": NA.get(p, "check not registered yet in this revision of /verif (work in progress); see DESIGN.md section 5 for the planned decision procedure")})
manifest = {
    "version": 1,
    "setup_cmd": "/venv/bin/python -c \"import networkx, hypothesis, ipywidgets, IPython; import sys; sys.path.insert(0, '/repo/src'); import uberjob; print('setup ok', uberjob.__file__)\"",
    "hooks": {
        "guard": "UBERJOB_VERIF",
        "enable": "no hook is needed: every seam is swapped from /verif at run time and restored afterwards (references to threading / time / queue.SimpleQueue and import-time lock objects in uberjob modules and stdlib queue, bases of Thread subclasses, Node.__hash__; for file-backed cases builtins.open / io.open / os.replace, rename, remove, unlink, link, symlink, truncate, open, write, close for paths under the case's scratch directory only); checks import uberjob from /repo/src via PYTHONPATH",
        "baseline_off_cmd": "cd /repo && PYTHONPATH=/repo/src /venv/bin/python -m pytest -q -p no:cacheprovider --timeout=900",
        "source_commits": [],
        "add_only": True,
    },
    "engines": [
        {"name": "simkit", "path": "/verif/simkit", "serves_properties": [c["property_id"] for c in checks],
         "kind_free_text": "deterministic simulator: baton-passed real threads behind simulated threading primitives, sys.monitoring pre-emption at opcode/line level inside uberjob's engine, virtual clock, seeded strategies (random walk, PCT, run-to-block), sparse choice tape, ddmin minimiser"},
    ],
    "checks": checks,
    "not_applicable": na,
    "notes": "All checks run uberjob from /repo/src (working tree). Exit 0 = held on everything explored (KNOWN-FINDING lines allowed), 1 = VIOLATION line with replay file, 2 = HARNESS-ERROR (nondeterminism, dead worker, timeout). VERIF_SEED, VERIF_JOBS, VERIF_BUDGET_S are honoured. Genuine defects found are listed in /verif/known_findings.json (F1-F7, all repaired by `fix:` commits in /repo; no entry has status `known` at present, so no check prints a KNOWN-FINDING line); self-tests: ./check selftest-determinism, ./check selftest-prims (primitive fidelity + file seam), ./check selftest-reach (scenario coverage against reach_baseline.json). Sensitivity: SENSITIVITY.md (256 seeded changes, 254 active), false-alarm screening: BENIGN.md (18 correct refactorings).",
}
with open(os.path.join(os.path.dirname(os.path.dirname(os.path.abspath(__file__))), "MANIFEST.json"), "w") as f:
    json.dump(manifest, f, indent=1)
print("wrote MANIFEST.json with", len(checks), "checks,", len(na), "not applicable")

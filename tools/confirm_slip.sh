#!/bin/bash
# usage: tools/confirm_slip.sh <dir with patch.diff demo.py> <benign dir with patch.diff>
# confirms: demo passes on HEAD and on the correct refactoring; with the variant the 81 tests pass and the demo fails
set -u
M=$(realpath "$1"); B=$(realpath "$2")
W=$(mktemp -d /tmp/confirm-XXXXXX)
git -C /repo worktree add -q --detach "$W/wt" HEAD || exit 9
cd "$W/wt"
mkdir -p MUTANT && cp "$M/demo.py" MUTANT/demo.py
PYTHONPATH=$W/wt/src timeout 120 /venv/bin/python MUTANT/demo.py >/dev/null 2>&1; base=$?
git apply "$B/patch.diff" || { echo "refactoring does not apply"; cd /; git -C /repo worktree remove --force "$W/wt"; exit 9; }
PYTHONPATH=$W/wt/src timeout 120 /venv/bin/python MUTANT/demo.py >/dev/null 2>&1; ref=$?
git checkout -q -- src
git apply "$M/patch.diff" || { echo "patch does not apply"; cd /; git -C /repo worktree remove --force "$W/wt"; exit 9; }
tests=$(PYTHONPATH=$W/wt/src timeout 900 /venv/bin/python -m pytest -q -p no:cacheprovider --timeout=900 2>&1 | tail -1)
PYTHONPATH=$W/wt/src timeout 120 /venv/bin/python MUTANT/demo.py >$W/demo.out 2>&1; mut=$?
echo "demo on HEAD: exit $base | demo on correct refactoring: exit $ref | tests with variant: $tests | demo with variant: exit $mut"
tail -2 $W/demo.out
cd /; git -C /repo worktree remove --force "$W/wt"; rm -rf "$W"

"""Run seeded mutants against checks and write SENSITIVITY.md.
usage: tools/matrix.py [--all]   (--all: every mutant against every check; default: target property only)"""
import glob
import json
import os
import subprocess
import sys
import tempfile
import shutil
import time

ROOT = os.path.dirname(os.path.dirname(os.path.abspath(__file__)))
ALL = [f"C{i:02d}" for i in range(1, 21) if i != 12]


def run(check_env, prop):
    t0 = time.time()
    r = subprocess.run([os.path.join(ROOT, "check"), prop, "--tier", "quick", "--no-shrink"], env=check_env,
                       capture_output=True, text=True, timeout=3000)
    line = [ln for ln in r.stdout.splitlines() if ln.startswith(("violation found", "OK ", "HARNESS"))]
    return r.returncode, time.time() - t0, (line[0] if line else r.stdout[-200:])[:260]


def main():
    every = "--all" in sys.argv
    rows = []
    only = [a for a in sys.argv[1:] if not a.startswith("--")]
    for mdir in sorted(glob.glob(os.path.join(ROOT, "seeded", "*"))):
        meta = json.load(open(os.path.join(mdir, "meta.json")))
        if only and meta["id"] not in only:
            continue
        if meta.get("retired"):
            continue
        target = meta["breaks_property"]
        scratch = tempfile.mkdtemp(prefix="verif-matrix-", dir="/tmp")
        try:
            subprocess.run(["git", "-C", "/repo", "worktree", "add", "-q", "--detach", scratch + "/wt", "HEAD"], check=True)
            subprocess.run(["git", "-C", scratch + "/wt", "apply", os.path.join(mdir, "patch.diff")], check=True)
            env = dict(os.environ, UBERJOB_SRC=scratch + "/wt/src")
            props = ALL if every else [target] + [x for x in meta.get("also_run", []) if x != target]
            res = {}
            for p in props:
                res[p] = run(env, p)
                print(meta["id"], p, res[p][0], f"{res[p][1]:.0f}s", res[p][2], flush=True)
            rows.append((meta, res))
        finally:
            subprocess.run(["git", "-C", "/repo", "worktree", "remove", "--force", scratch + "/wt"], check=False)
            shutil.rmtree(scratch, ignore_errors=True)
    # results are kept (and merged) in SENSITIVITY.json so that a partial re-run only replaces its own rows
    jpath = os.path.join(ROOT, "SENSITIVITY.json")
    store = json.load(open(jpath)) if os.path.exists(jpath) else {}
    for meta, res in rows:
        store[meta["id"]] = {p: list(r) for p, r in res.items()}
    json.dump(store, open(jpath, "w"), indent=0, sort_keys=True)
    rows = []
    for mdir in sorted(glob.glob(os.path.join(ROOT, "seeded", "*"))):
        meta = json.load(open(os.path.join(mdir, "meta.json")))
        if meta.get("retired"):
            rows.append((meta, {"-": [9, 0.0, meta["retired"]]}))
        elif meta["id"] in store:
            rows.append((meta, store[meta["id"]]))
    with open(os.path.join(ROOT, "SENSITIVITY.md"), "w") as f:
        f.write("# Sensitivity: seeded changes vs. checks\n\n")
        f.write("Rows with a NOT / HARNESS-ERROR note are changes the check of their own property does not catch (the note says who does, if anyone). "
                "Each seeded change (`seeded/<id>/patch.diff`) compiles, passes the 81 existing tests and breaks the named "
                "property (its `demo.py` fails with the change and passes without). The registered quick command of each "
                "check was run against a scratch worktree of /repo with the change applied "
                "(`tools/matrix.py`; exit 1 = caught, 0 = missed, 2 = harness error).\n\n")
        f.write("| seeded change | breaks | change | caught by | missed by | first violation of the target check (or note) |\n|---|---|---|---|---|---|\n")
        for meta, res in rows:
            if meta.get("retired"):
                f.write(f"| {meta['id']} | {meta['breaks_property']} | {meta['change']} | (retired) | - | {meta['retired'].replace('|', '/')} |\n")
                continue
            caught = [p for p, r in res.items() if r[0] == 1]
            missed = [p for p, r in res.items() if r[0] == 0]
            err = [p for p, r in res.items() if r[0] not in (0, 1)]
            t = res.get(meta["breaks_property"]) or res.get("-")
            f.write(f"| {meta['id']} | {meta['breaks_property']} | {meta['change']} | {' '.join(caught) or '-'} | "
                    f"{' '.join(missed) or '-'}{(' (harness error: ' + ' '.join(err) + ')') if err else ''} | "
                    f"{(meta.get('not_caught_note') or (t[2] if t else '')).replace('|', '/')} ({t[1]:.0f}s) |\n")
    print("wrote SENSITIVITY.md")


if __name__ == "__main__":
    main()

#!/bin/bash
# usage: tools/confirm_mutant.sh <dir with patch.diff demo.py> -> confirms: demo passes on HEAD, tests pass + demo fails with patch
set -u
M=$(realpath "$1")
W=$(mktemp -d /tmp/confirm-XXXXXX)
git -C /repo worktree add -q --detach "$W/wt" HEAD || exit 9
cd "$W/wt"
mkdir -p MUTANT && cp "$M/demo.py" MUTANT/demo.py
PYTHONPATH=$W/wt/src timeout 120 /venv/bin/python MUTANT/demo.py >/dev/null 2>&1; base=$?
git apply "$M/patch.diff" || { echo "patch does not apply"; git -C /repo worktree remove --force "$W/wt"; exit 9; }
tests=$(PYTHONPATH=$W/wt/src timeout 900 /venv/bin/python -m pytest -q -p no:cacheprovider --timeout=900 2>&1 | tail -1)
PYTHONPATH=$W/wt/src timeout 120 /venv/bin/python MUTANT/demo.py >/tmp/confirm_demo.out 2>&1; mut=$?
echo "demo on HEAD: exit $base | tests with patch: $tests | demo with patch: exit $mut"
tail -3 /tmp/confirm_demo.out
cd /; git -C /repo worktree remove --force "$W/wt"; rm -rf "$W"

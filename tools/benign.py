"""False-alarm screening: run every registered check against behaviour-preserving refactorings of uberjob
(`benign/<id>/patch.diff`, written by independent sub-agents who were told to keep all properties true).  Every
check must answer OK; a VIOLATION or HARNESS-ERROR is triaged by hand (the refactoring broke a property after all,
or the check demands more than the property states) and recorded in benign/<id>/meta.json.

usage: tools/benign.py [--budget S] [--jobs N] [--par K] [--only C01,C02] <dir with patch.diff> ...   -> BENIGN.md
"""
import concurrent.futures as cf
import json
import os
import shutil
import subprocess
import sys
import tempfile
import time

ROOT = os.path.dirname(os.path.dirname(os.path.abspath(__file__)))
PROPS = ["C01", "C02", "C03", "C04", "C05", "C06", "C07", "C08", "C09", "C10", "C11", "C13", "C14", "C15", "C16", "C17",
         "C18", "C19", "C20"]


def run_one(d, budget, jobs, props):
    patch = os.path.join(os.path.abspath(d), "patch.diff")
    scratch = tempfile.mkdtemp(prefix="verif-benign-", dir="/tmp")
    out = {}
    try:
        subprocess.run(["git", "-C", "/repo", "worktree", "add", "-q", "--detach", scratch + "/wt", "HEAD"], check=True)
        r = subprocess.run(["git", "-C", scratch + "/wt", "apply", patch], capture_output=True, text=True)
        if r.returncode != 0:
            return {"apply": (2, 0.0, "patch does not apply: " + r.stderr[-200:])}
        env = dict(os.environ, UBERJOB_SRC=scratch + "/wt/src", VERIF_BUDGET_S=str(budget), VERIF_JOBS=str(jobs),
                   VERIF_ADHOC="1")
        for p in props:
            t0 = time.time()
            try:
                r = subprocess.run([os.path.join(ROOT, "check"), p, "--tier", "quick", "--no-shrink"], env=env,
                                   capture_output=True, text=True, timeout=1500)
                line = [ln for ln in r.stdout.splitlines() if ln.startswith(("violation found", "HARNESS", "VIOLATION"))]
                ok = [ln for ln in r.stdout.splitlines() if ln.startswith("OK ")]
                msg = line[0] if line else (ok[0] if ok else (r.stdout[-300:] + " | stderr: " + r.stderr[-400:]))
                out[p] = (r.returncode, time.time() - t0, msg[:700])
            except subprocess.TimeoutExpired:
                out[p] = (3, time.time() - t0, "timeout")
            print(f"{os.path.basename(os.path.abspath(d))} {p} exit={out[p][0]} {out[p][1]:.0f}s {out[p][2][:200] if out[p][0] else ''}",
                  flush=True)
    finally:
        subprocess.run(["git", "-C", "/repo", "worktree", "remove", "--force", scratch + "/wt"], check=False)
        shutil.rmtree(scratch, ignore_errors=True)
    return out


def main():
    args = sys.argv[1:]
    budget, jobs, par, props = 15, 8, 2, PROPS
    dirs = []
    while args:
        a = args.pop(0)
        if a == "--budget":
            budget = float(args.pop(0))
        elif a == "--jobs":
            jobs = int(args.pop(0))
        elif a == "--par":
            par = int(args.pop(0))
        elif a == "--only":
            props = args.pop(0).split(",")
        else:
            dirs.append(a)
    results = {}
    with cf.ThreadPoolExecutor(par) as ex:
        futs = {ex.submit(run_one, d, budget, jobs, props): d for d in dirs}
        for f in cf.as_completed(futs):
            results[os.path.basename(os.path.abspath(futs[f]))] = f.result()
    path = os.path.join(ROOT, "BENIGN.json")
    old = json.load(open(path)) if os.path.exists(path) else {}
    for k, v in results.items():
        old.setdefault(k, {}).update({p: list(x) for p, x in v.items()})
    json.dump(old, open(path, "w"), indent=0, sort_keys=True)
    with open(os.path.join(ROOT, "BENIGN.md"), "w") as f:
        f.write("# Behaviour-preserving refactorings: every check must stay silent\n\n"
                "`benign/<id>/patch.diff` are refactorings of uberjob written by independent sub-agents that were given the "
                "property texts and told to keep every one of them true (and the 81 tests passing). Each registered check was run "
                "against each (quick tier, reduced budget, scratch worktree via UBERJOB_SRC). `ok` = exit 0; anything else was "
                "triaged by hand, see benign/<id>/meta.json and DESIGN.md section 16.\n\n")
        f.write("| refactoring | what | alarms | triage |\n|---|---|---|---|\n")
        for k in sorted(old):
            meta = {}
            mp = os.path.join(ROOT, "benign", k, "meta.json")
            if os.path.exists(mp):
                meta = json.load(open(mp))
            alarms = [f"{p}: exit {x[0]} {x[2][:160]}" for p, x in sorted(old[k].items()) if x[0] != 0]
            f.write(f"| {k} | {meta.get('change', '')[:300]} | {'<br>'.join(alarms).replace('|', '/') or 'none (' + str(len(old[k])) + ' checks ok)'} | "
                    f"{meta.get('triage', '')} |\n")
    bad = sum(1 for k in results for p, x in results[k].items() if x[0] != 0)
    print(f"{len(results)} refactorings, {bad} alarms")
    return 0


if __name__ == "__main__":
    sys.exit(main())

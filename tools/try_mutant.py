"""Run checks against a patched scratch copy of /repo/src (screening) or against
/repo itself with the patch applied and reverted (--in-repo).

usage: tools/try_mutant.py <patch.diff> C01 C04 ... [--cases N] [--in-repo]
Prints one line per property: caught (exit 1) / missed (exit 0) / harness error.
"""
import os
import shutil
import subprocess
import sys
import tempfile
import time


def main():
    args = [a for a in sys.argv[1:] if not a.startswith("--")]
    patch = os.path.abspath(args[0])
    props = args[1:]
    cases = None
    in_repo = "--in-repo" in sys.argv
    for a in sys.argv[1:]:
        if a.startswith("--cases="):
            cases = a.split("=", 1)[1]
    env = dict(os.environ)
    scratch = None
    if in_repo:
        subprocess.run(["git", "-C", "/repo", "apply", patch], check=True)
    else:
        scratch = tempfile.mkdtemp(prefix="verif-mut-", dir="/tmp")
        subprocess.run(["git", "-C", "/repo", "worktree", "add", "-q", "--detach", scratch + "/wt", "HEAD"], check=True)
        subprocess.run(["git", "-C", scratch + "/wt", "apply", patch], check=True)
        env["UBERJOB_SRC"] = scratch + "/wt/src"
    results = {}
    try:
        for p in props:
            cmd = [os.path.join(os.path.dirname(os.path.dirname(os.path.abspath(__file__))), "check"), p, "--tier", "quick", "--no-shrink"]
            if cases:
                cmd += ["--cases", cases]
            t0 = time.time()
            r = subprocess.run(cmd, env=env, capture_output=True, text=True, timeout=1800)
            line = [ln for ln in r.stdout.splitlines() if ln.startswith(("violation found", "OK ", "HARNESS"))]
            results[p] = (r.returncode, time.time() - t0, (line[0] if line else r.stdout[-300:])[:400])
            verdict = {0: "missed", 1: "CAUGHT", 2: "harness-error"}.get(r.returncode, str(r.returncode))
            print(f"{p}: {verdict} ({results[p][1]:.0f}s) {results[p][2]}", flush=True)
    finally:
        if in_repo:
            subprocess.run(["git", "-C", "/repo", "checkout", "--", "."], check=True)
        else:
            subprocess.run(["git", "-C", "/repo", "worktree", "remove", "--force", scratch + "/wt"], check=False)
            shutil.rmtree(scratch, ignore_errors=True)
    return 0


if __name__ == "__main__":
    sys.exit(main())

"""Syscall-granular fault layer under everything that touches the scratch
directory of a case (DESIGN 3, C11).  The unit of failure is the raw file
operation (open, each raw write, close, replace / rename, link, remove), not
the Python-level write call.  Real files in a scratch directory underneath.

The seam is process-wide and keyed by path: while a plan is installed,
`builtins.open` / `io.open`, `os.replace`, `os.rename`, `os.remove`,
`os.unlink`, `os.link`, `os.symlink`, `os.truncate` and the descriptor-level
`os.open` / `os.write` / `os.close` / `os.fdopen` go through the layer **for
paths under the plan's root** and straight to the real function for every
other path (the harness's own files, the import system).  So it does not
matter through which module (`shutil`, `pathlib`, `tempfile`) the code under
test reaches the file system.  Names bound at import time in uberjob modules
(`from os import replace`) are re-bound as well.  `shutil` is told not to use
sendfile(2), so that a copy is a sequence of raw writes."""
import builtins as _builtins
import errno
import io
import os as _os
import shutil as _shutil
import sys as _sys

REAL = dict(open=io.open, replace=_os.replace, rename=_os.rename, remove=_os.remove, unlink=_os.unlink,
            link=_os.link, symlink=_os.symlink, truncate=_os.truncate, os_open=_os.open, os_write=_os.write,
            os_close=_os.close, fdopen=_os.fdopen, utime=_os.utime)
real_open = io.open


class FaultPlan:
    """fault = None | dict(k=int, kind='error'|'short'|'die-before'|'die-after', errno=...)"""

    def __init__(self, fault=None, buffer_size=8192, hook=None, stamp=None, root=None):
        if root is None:
            raise ValueError("the fault layer needs the scratch directory it governs")
        self.root = _os.path.abspath(str(root)) + _os.sep
        self.fds = {}       # descriptors opened through os.open under the root -> path
        self.fault = fault
        self.buffer_size = buffer_size
        self.ops = []       # (name, detail)
        self.fired = None
        self.hook = hook    # in-simulation mode: hook(phase, opname, path) around every syscall (may raise)
        self.stamp = stamp  # in-simulation mode: virtual-clock mtime for files this process closes
        self.dead = False   # in-simulation process death: nothing reaches the kernel any more

    def op(self, name, detail=None):
        """Register a file operation about to happen; returns the action for
        it: None | 'error' | 'short' | 'die-before' | 'die-after'."""
        self.ops.append((name, detail))
        f = self.fault
        if f is not None and self.fired is None and len(self.ops) == f["k"]:
            self.fired = (name, f["kind"])
            return f["kind"]
        return None

    def err(self):
        f = self.fault or {}
        if f.get("exc") == "KeyboardInterrupt":
            return KeyboardInterrupt("injected during a file operation")
        if f.get("exc") == "SystemExit":
            return SystemExit(3)
        code = f.get("errno", errno.EIO)
        return OSError(code, _os.strerror(code) + " (injected)")


PLAN = [None]


def _die():
    _os._exit(137)


class _Dead(Exception):
    pass


class FaultyFileIO(io.FileIO):
    _plain = False

    def __init__(self, path, mode, closefd=True, opener=None):
        plan = PLAN[0]
        if opener is not None:
            # (tempfile) the opener decides which file this is: if it went through the layer's os.open and the path
            # is governed, that open has been counted and the descriptor is adopted; else this is an ordinary file
            super().__init__(path, mode, closefd=closefd, opener=opener)
            p = plan.fds.pop(self.fileno(), None)
            self._plain = p is None
            self._path = p or str(path)
            return
        if isinstance(path, int):
            # a descriptor that came from the layer's os.open: that open has been counted already
            self._path = plan.fds.pop(path)
            super().__init__(path, mode, closefd=closefd)
            return
        self._path = str(path)
        if plan.dead:
            raise _Dead()
        if plan.hook:
            plan.hook("before", "open", self._path)
            super().__init__(path, mode)
            self._stamp(plan)      # creating / truncating a file sets its modified time
            try:
                plan.hook("after", "open", self._path)
            except BaseException:
                io.FileIO.close(self)   # never leave the descriptor to the garbage collector
                raise
            return
        act = plan.op("open", _os.path.basename(str(path)))
        if act == "die-before":
            _die()
        if act in ("error", "short"):
            raise plan.err()
        super().__init__(path, mode)
        if act == "die-after":
            _die()

    def _stamp(self, plan):
        """The kernel's modified time, on the virtual clock (through the descriptor)."""
        if plan.stamp is not None:
            t = plan.stamp()
            REAL["utime"](self.fileno(), ns=(int(round(t * 1e9)), int(round(t * 1e9))))

    def write(self, b):
        plan = PLAN[0]
        if self._plain or plan is None:
            return super().write(b)
        if plan.dead:
            return len(b)
        if plan.hook:
            plan.hook("before", "write", self._path)
            n = super().write(b)
            self._stamp(plan)      # so does every write - and nothing else (closing a file does not)
            plan.hook("after", "write", self._path)
            return n
        act = plan.op("write", len(b))
        if act == "die-before":
            _die()
        if act == "error":
            raise plan.err()
        if act == "short":
            n = max(0, len(b) // 2)
            if n:
                super().write(bytes(b[:n]))
            raise plan.err()
        if act == "partial":
            # write(2) may store fewer bytes than asked and just say so (disk nearly full, RLIMIT_FSIZE, signals):
            # no error - the caller has to look at the count and write the rest
            return super().write(bytes(b[:max(1, len(b) // 2)]))
        n = super().write(b)
        if act == "die-after":
            _die()
        return n

    def close(self):
        if self.closed:
            return super().close()
        plan = PLAN[0]
        if plan is None or plan.dead or self._plain:
            return super().close()
        if plan.hook:
            try:
                plan.hook("before", "close", self._path)
            except BaseException:
                io.FileIO.close(self)   # a failing close(2) still releases the descriptor
                raise
            super().close()
            plan.hook("after", "close", self._path)
            return
        act = plan.op("close")
        if act == "die-before":
            _die()
        super().close()
        if act == "die-after":
            _die()
        if act in ("error", "short"):
            raise plan.err()


def _governed(path):
    """The path (str) if the installed plan governs it, else None."""
    plan = PLAN[0]
    if plan is None:
        return None
    if isinstance(path, int):
        return plan.fds.get(path)
    try:
        p = _os.fspath(path)
    except TypeError:
        return None
    if isinstance(p, bytes):
        p = _os.fsdecode(p)
    a = _os.path.abspath(p)
    return a if a.startswith(plan.root) else None


def fake_open(file, mode="r", buffering=-1, encoding=None, errors=None, newline=None, closefd=True, opener=None):
    plan = PLAN[0]
    if not any(c in mode for c in "wax+") or plan is None or (opener is None and _governed(file) is None):
        return REAL["open"](file, mode, buffering, encoding, errors, newline, closefd, opener)
    raw_mode = "".join(c for c in mode if c in "wax+r")
    if opener is not None:
        raw = FaultyFileIO(file, raw_mode, closefd, opener)
    else:
        raw = FaultyFileIO(file, raw_mode, closefd) if isinstance(file, int) else FaultyFileIO(file, raw_mode)
    if buffering == 0:
        if "b" not in mode:
            raw.close()
            raise ValueError("can't have unbuffered text I/O")
        return raw   # as the real open(): the caller talks to the raw file
    try:
        size = plan.buffer_size if buffering < 0 else max(1, buffering)
        buf = (io.BufferedRandom if "+" in mode else io.BufferedWriter)(raw, buffer_size=size)
    except BaseException:
        raw.close()
        raise
    if "b" in mode:
        return buf
    return io.TextIOWrapper(buf, encoding=encoding, errors=errors, newline=newline)


def _path_op(opname, real, which):
    """A whole-path operation (replace, rename, link, ...): `which` is the index of the argument whose path names
    the operation in the log and decides whether the layer governs it."""

    def op(*args, **kw):
        p = _governed(args[which]) if len(args) > which else None
        if p is None:
            return real(*args, **kw)
        plan = PLAN[0]
        if plan.dead:
            return None
        if plan.hook:
            plan.hook("before", opname, p)
            r = real(*args, **kw)
            plan.hook("after", opname, p)
            return r
        act = plan.op(opname, _os.path.basename(p))
        if act == "die-before":
            _die()
        if act in ("error", "short", "partial"):
            raise plan.err()
        r = real(*args, **kw)
        if act == "die-after":
            _die()
        return r

    op.__name__ = opname
    return op


def _remove(real):
    def remove(path, *a, **kw):
        p = _governed(path)
        if p is None:
            return real(path, *a, **kw)
        plan = PLAN[0]
        if plan.dead:
            return None
        plan.op("remove", _os.path.basename(p))
        return real(path, *a, **kw)

    return remove


def _os_open(path, flags, mode=0o777, *, dir_fd=None):
    p = _governed(path) if dir_fd is None else None
    if p is None or not flags & (_os.O_WRONLY | _os.O_RDWR):
        return REAL["os_open"](path, flags, mode, dir_fd=dir_fd)
    plan = PLAN[0]
    if plan.dead:
        raise _Dead()
    if plan.hook:
        plan.hook("before", "open", p)
        fd = REAL["os_open"](path, flags, mode)
        plan.fds[fd] = p
        if plan.stamp is not None and flags & (_os.O_CREAT | _os.O_TRUNC):
            t = int(round(plan.stamp() * 1e9))
            REAL["utime"](fd, ns=(t, t))
        plan.hook("after", "open", p)
        return fd
    act = plan.op("open", _os.path.basename(p))
    if act == "die-before":
        _die()
    if act in ("error", "short", "partial"):
        raise plan.err()
    fd = REAL["os_open"](path, flags, mode)
    plan.fds[fd] = p
    if act == "die-after":
        _die()
    return fd


def _os_write(fd, data):
    plan = PLAN[0]
    p = plan.fds.get(fd) if plan is not None else None
    if p is None:
        return REAL["os_write"](fd, data)
    if plan.dead:
        return len(data)
    if plan.hook:
        plan.hook("before", "write", p)
        n = REAL["os_write"](fd, data)
        if plan.stamp is not None:
            t = int(round(plan.stamp() * 1e9))
            REAL["utime"](fd, ns=(t, t))
        plan.hook("after", "write", p)
        return n
    act = plan.op("write", len(data))
    if act == "die-before":
        _die()
    if act == "error":
        raise plan.err()
    if act in ("short", "partial"):
        n = REAL["os_write"](fd, bytes(data[:max(1, len(data) // 2)]))
        if act == "short":
            raise plan.err()
        return n
    n = REAL["os_write"](fd, data)
    if act == "die-after":
        _die()
    return n


def _os_close(fd):
    plan = PLAN[0]
    p = plan.fds.pop(fd, None) if plan is not None else None
    if p is None or plan.dead:
        return REAL["os_close"](fd)
    if plan.hook:
        try:
            plan.hook("before", "close", p)
        except BaseException:
            REAL["os_close"](fd)
            raise
        REAL["os_close"](fd)
        plan.hook("after", "close", p)
        return None
    act = plan.op("close")
    if act == "die-before":
        _die()
    REAL["os_close"](fd)
    if act == "die-after":
        _die()
    if act in ("error", "short", "partial"):
        raise plan.err()
    return None


def _fdopen(fd, mode="r", buffering=-1, encoding=None, *args, **kwargs):
    return fake_open(fd, mode, buffering, encoding, *args, **kwargs)


def _replacements():
    return {
        "open": fake_open,
        "replace": _path_op("replace", REAL["replace"], 1),
        "rename": _path_op("rename", REAL["rename"], 1),
        "link": _path_op("link", REAL["link"], 1),
        "symlink": _path_op("symlink", REAL["symlink"], 1),
        "truncate": _path_op("truncate", REAL["truncate"], 0),
        "remove": _remove(REAL["remove"]),
        "unlink": _remove(REAL["unlink"]),
        "os_open": _os_open,
        "os_write": _os_write,
        "os_close": _os_close,
        "fdopen": _fdopen,
    }


_SAVED = []


def _set(obj, name, value):
    d = obj.__dict__ if not isinstance(obj, dict) else obj
    _SAVED.append((obj, name, d.get(name, _SAVED), ))
    if isinstance(obj, dict):
        obj[name] = value
    else:
        setattr(obj, name, value)


def install(plan):
    if _SAVED or PLAN[0] is not None:
        raise RuntimeError("fs layer already installed")
    PLAN[0] = plan
    rep = _replacements()
    _set(_builtins, "open", rep["open"])
    _set(io, "open", rep["open"])
    for name in ("replace", "rename", "link", "symlink", "truncate", "remove", "unlink", "fdopen"):
        _set(_os, name, rep[name])
    _set(_os, "open", rep["os_open"])
    _set(_os, "write", rep["os_write"])
    _set(_os, "close", rep["os_close"])
    _set(_shutil, "_USE_CP_SENDFILE", False)
    # names bound at import time inside the package under test (`from os import replace`, `from io import open`)
    by_id = {id(REAL[k]): rep[k] for k in rep}
    for modname, mod in list(_sys.modules.items()):
        if mod is None or not (modname == "uberjob" or modname.startswith("uberjob.")):
            continue
        for k, v in list(vars(mod).items()):
            r = by_id.get(id(v))
            if r is not None and not k.startswith("__"):
                _set(mod, k, r)


def uninstall():
    while _SAVED:
        obj, name, old = _SAVED.pop()
        if old is _SAVED:
            if isinstance(obj, dict):
                obj.pop(name, None)
            else:
                try:
                    delattr(obj, name)
                except AttributeError:
                    pass
        elif isinstance(obj, dict):
            obj[name] = old
        else:
            setattr(obj, name, old)
    PLAN[0] = None

"""Syscall-granular fault layer under uberjob.stores._file_store (DESIGN 3,
C11).  `open` and `os` of that module are replaced; the unit of failure is the
raw file operation (open, each raw write, close, replace, remove), not the
Python-level write call.  Real files in a scratch directory underneath."""
import errno
import io
import os as _os


class FaultPlan:
    """fault = None | dict(k=int, kind='error'|'short'|'die-before'|'die-after', errno=...)"""

    def __init__(self, fault=None, buffer_size=8192, hook=None, stamp=None):
        self.fault = fault
        self.buffer_size = buffer_size
        self.ops = []       # (name, detail)
        self.fired = None
        self.hook = hook    # in-simulation mode: hook(phase, opname, path) around every syscall (may raise)
        self.stamp = stamp  # in-simulation mode: virtual-clock mtime for files this process closes
        self.dead = False   # in-simulation process death: nothing reaches the kernel any more

    def op(self, name, detail=None):
        """Register a file operation about to happen; returns the action for
        it: None | 'error' | 'short' | 'die-before' | 'die-after'."""
        self.ops.append((name, detail))
        f = self.fault
        if f is not None and self.fired is None and len(self.ops) == f["k"]:
            self.fired = (name, f["kind"])
            return f["kind"]
        return None

    def err(self):
        f = self.fault or {}
        if f.get("exc") == "KeyboardInterrupt":
            return KeyboardInterrupt("injected during a file operation")
        if f.get("exc") == "SystemExit":
            return SystemExit(3)
        code = f.get("errno", errno.EIO)
        return OSError(code, _os.strerror(code) + " (injected)")


PLAN = [None]


def _die():
    _os._exit(137)


class _Dead(Exception):
    pass


class FaultyFileIO(io.FileIO):
    def __init__(self, path, mode):
        plan = PLAN[0]
        self._path = str(path)
        if plan.dead:
            raise _Dead()
        if plan.hook:
            plan.hook("before", "open", self._path)
            super().__init__(path, mode)
            self._stamp(plan)      # creating / truncating a file sets its modified time
            try:
                plan.hook("after", "open", self._path)
            except BaseException:
                io.FileIO.close(self)   # never leave the descriptor to the garbage collector
                raise
            return
        act = plan.op("open", _os.path.basename(str(path)))
        if act == "die-before":
            _die()
        if act in ("error", "short"):
            raise plan.err()
        super().__init__(path, mode)
        if act == "die-after":
            _die()

    def _stamp(self, plan):
        """The kernel's modified time, on the virtual clock (through the descriptor)."""
        if plan.stamp is not None:
            t = plan.stamp()
            _os.utime(self.fileno(), ns=(int(round(t * 1e9)), int(round(t * 1e9))))

    def write(self, b):
        plan = PLAN[0]
        if plan.dead:
            return len(b)
        if plan.hook:
            plan.hook("before", "write", self._path)
            n = super().write(b)
            self._stamp(plan)      # so does every write - and nothing else (closing a file does not)
            plan.hook("after", "write", self._path)
            return n
        act = plan.op("write", len(b))
        if act == "die-before":
            _die()
        if act == "error":
            raise plan.err()
        if act == "short":
            n = max(0, len(b) // 2)
            if n:
                super().write(bytes(b[:n]))
            raise plan.err()
        if act == "partial":
            # write(2) may store fewer bytes than asked and just say so (disk nearly full, RLIMIT_FSIZE, signals):
            # no error - the caller has to look at the count and write the rest
            return super().write(bytes(b[:max(1, len(b) // 2)]))
        n = super().write(b)
        if act == "die-after":
            _die()
        return n

    def close(self):
        if self.closed:
            return super().close()
        plan = PLAN[0]
        if plan is None or plan.dead:
            return super().close()
        if plan.hook:
            try:
                plan.hook("before", "close", self._path)
            except BaseException:
                io.FileIO.close(self)   # a failing close(2) still releases the descriptor
                raise
            super().close()
            plan.hook("after", "close", self._path)
            return
        act = plan.op("close")
        if act == "die-before":
            _die()
        super().close()
        if act == "die-after":
            _die()
        if act in ("error", "short"):
            raise plan.err()


def fake_open(path, mode="r", buffering=-1, encoding=None, errors=None, newline=None, **kw):
    if "w" not in mode:
        return io.open(path, mode, buffering, encoding, errors, newline, **kw)
    plan = PLAN[0]
    raw = FaultyFileIO(path, "w")
    if buffering == 0:
        if "b" not in mode:
            raw.close()
            raise ValueError("can't have unbuffered text I/O")
        return raw   # as the real open(): the caller talks to the raw file
    try:
        buf = io.BufferedWriter(raw, buffer_size=plan.buffer_size if buffering < 0 else max(1, buffering))
    except BaseException:
        raw.close()
        raise
    if "b" in mode:
        return buf
    return io.TextIOWrapper(buf, encoding=encoding, errors=errors, newline=newline)


class FakeOs:
    """Stands in for the `os` module inside uberjob.stores._file_store."""

    path = _os.path

    def __getattr__(self, name):
        return getattr(_os, name)

    @staticmethod
    def replace(src, dst):
        plan = PLAN[0]
        if plan.dead:
            return
        if plan.hook:
            plan.hook("before", "replace", str(dst))
            _os.replace(src, dst)
            plan.hook("after", "replace", str(dst))
            return
        act = plan.op("replace", _os.path.basename(str(dst)))
        if act == "die-before":
            _die()
        if act in ("error", "short"):
            raise plan.err()
        _os.replace(src, dst)
        if act == "die-after":
            _die()

    @staticmethod
    def remove(path):
        plan = PLAN[0]
        if plan.dead:
            return
        plan.op("remove", _os.path.basename(str(path)))
        _os.remove(path)


_SAVED = []


def install(plan):
    import uberjob.stores._file_store as fsmod

    if _SAVED:
        raise RuntimeError("fs layer already installed")
    PLAN[0] = plan
    had_open = "open" in fsmod.__dict__
    _SAVED.append((fsmod, had_open, fsmod.__dict__.get("open"), fsmod.os))
    fsmod.open = fake_open
    fsmod.os = FakeOs()


def uninstall():
    while _SAVED:
        fsmod, had_open, old_open, old_os = _SAVED.pop()
        if had_open:
            fsmod.open = old_open
        else:
            del fsmod.open
        fsmod.os = old_os
    PLAN[0] = None

"""Simulated threading primitives and module shims (DESIGN 2.1, 12).

Semantics: non-reentrant Lock, reentrant RLock, Mesa-style Condition with FIFO
notification (as CPython's), Event, Thread.  Every method that can block or
publish state is a scheduling point.  Interrupts (KeyboardInterrupt injected
in the client) are delivered at operation entry, or wake an interruptible
blocked wait - exactly where CPython delivers a signal to a thread blocked in
lock.acquire().
"""
import datetime as _dt
import time as _real_time
import threading as _real_threading

from simkit.sched import DONE, SimAbort, current_sim


def _sim():
    s = current_sim()
    if s is None:
        raise RuntimeError("simulated primitive used outside a simulation")
    return s


_COUNTER = [0]
_OUTSIDE = "<outside any simulation>"


def _name(prefix):
    _COUNTER[0] += 1
    return f"{prefix}#{_COUNTER[0]}"


class Lock:
    def __init__(self):
        self.owner = None
        self.name = _name("lock")

    def __repr__(self):
        return self.name

    def acquire(self, blocking=True, timeout=-1):
        sim = _sim()
        sim.op_enter(("acquire", self.name))
        me = sim.current
        if self.owner is None:
            self.owner = me
            return True
        if not blocking:
            return False
        deadline = None if timeout is None or timeout < 0 else sim.now + timeout
        sim.probe("lock-contended")
        ok = sim.block(lambda: self.owner is None, deadline, what=self)
        if ok:
            self.owner = sim.current
            return True
        return False

    def _acquire_nointr(self):
        sim = _sim()
        sim.block(lambda: self.owner is None, None, what=self, interruptible=False)
        self.owner = sim.current

    def release(self):
        sim = _sim()
        if self.owner is None:
            raise RuntimeError("release unlocked lock")
        sim.op_enter(("release", self.name), interruptible=False)
        self.owner = None
        sim.strategy_after_effect()

    def locked(self):
        return self.owner is not None

    def __enter__(self):
        self.acquire()
        return True

    def __exit__(self, *a):
        self.release()

    # used by Condition
    def _is_owned(self):
        return self.owner is _sim().current

    def _release_save(self):
        self.owner = None
        return None

    def _acquire_restore(self, state):
        self._acquire_nointr()


class RLock:
    def __init__(self):
        self.owner = None
        self.count = 0
        self.name = _name("rlock")

    def __repr__(self):
        return self.name

    def acquire(self, blocking=True, timeout=-1):
        if current_sim() is None:
            # outside any simulation (a Plan being built before its run is simulated, or inspected afterwards):
            # one thread at a time by construction - plain re-entrancy bookkeeping, no scheduling
            if self.owner not in (None, _OUTSIDE):
                self.count = 0     # held by a thread of a simulation that is over (torn down mid-run): free
            self.owner = _OUTSIDE
            self.count += 1
            return True
        sim = _sim()
        sim.op_enter(("acquire", self.name))
        me = sim.current
        if self.owner is not None and self.owner is not me and (self.owner is _OUTSIDE or self.owner not in sim.threads):
            self.owner, self.count = None, 0   # left over from outside / from a simulation that is over
        if self.owner is me:
            self.count += 1
            return True
        if self.owner is None:
            self.owner = me
            self.count = 1
            return True
        if not blocking:
            return False
        deadline = None if timeout is None or timeout < 0 else sim.now + timeout
        ok = sim.block(lambda: self.owner is None, deadline, what=self)
        if ok:
            self.owner = sim.current
            self.count = 1
            return True
        return False

    def release(self):
        if current_sim() is None:
            if self.owner is not _OUTSIDE:
                raise RuntimeError("cannot release un-acquired lock")
            self.count -= 1
            if self.count == 0:
                self.owner = None
            return
        sim = _sim()
        if self.owner is not sim.current:
            raise RuntimeError("cannot release un-acquired lock")
        sim.op_enter(("release", self.name), interruptible=False)
        self.count -= 1
        if self.count == 0:
            self.owner = None
            sim.strategy_after_effect()

    def __enter__(self):
        self.acquire()
        return True

    def __exit__(self, *a):
        self.release()

    def _is_owned(self):
        return self.owner is _sim().current

    def _release_save(self):
        st = (self.owner, self.count)
        self.owner = None
        self.count = 0
        return st

    def _acquire_restore(self, state):
        sim = _sim()
        sim.block(lambda: self.owner is None, None, what=self, interruptible=False)
        self.owner, self.count = state


class Condition:
    def __init__(self, lock=None):
        self._lock = lock if lock is not None else RLock()
        self._waiters = []
        self.name = _name("cond")
        self.acquire = self._lock.acquire
        self.release = self._lock.release

    def __repr__(self):
        return self.name

    def __enter__(self):
        return self._lock.__enter__()

    def __exit__(self, *a):
        return self._lock.__exit__(*a)

    def wait(self, timeout=None):
        sim = _sim()
        if not self._lock._is_owned():
            raise RuntimeError("cannot wait on un-acquired lock")
        sim.op_enter(("wait", self.name))
        waiter = [False]
        self._waiters.append(waiter)
        saved = self._lock._release_save()
        sim.strategy_after_effect()
        deadline = None if timeout is None else sim.now + max(0.0, timeout)
        got = False
        try:
            got = sim.block(lambda: waiter[0], deadline, what=self)
            return got
        finally:
            # CPython re-acquires the lock before propagating anything
            try:
                self._lock._acquire_restore(saved)
            finally:
                if not got:
                    try:
                        self._waiters.remove(waiter)
                    except ValueError:
                        pass

    def wait_for(self, predicate, timeout=None):
        sim = _sim()
        endtime = None
        result = predicate()
        while not result:
            if timeout is not None:
                if endtime is None:
                    endtime = sim.now + timeout
                wt = endtime - sim.now
                if wt <= 0:
                    break
                self.wait(wt)
            else:
                self.wait(None)
            result = predicate()
        return result

    def notify(self, n=1):
        sim = _sim()
        if not self._lock._is_owned():
            raise RuntimeError("cannot notify on un-acquired lock")
        sim.op_enter(("notify", self.name), interruptible=False)
        k = 0
        while self._waiters and k < n:
            w = self._waiters.pop(0)
            w[0] = True
            k += 1
        if k:
            sim.strategy_after_effect()

    def notify_all(self):
        self.notify(len(self._waiters) + 1)

    notifyAll = notify_all


class Event:
    def __init__(self):
        self._flag = False
        self.name = _name("event")

    def __repr__(self):
        return self.name

    def is_set(self):
        return self._flag

    isSet = is_set

    def set(self):
        sim = _sim()
        sim.op_enter(("set", self.name), interruptible=False)
        self._flag = True
        sim.strategy_after_effect()

    def clear(self):
        sim = _sim()
        sim.op_enter(("clear", self.name), interruptible=False)
        self._flag = False

    def wait(self, timeout=None):
        sim = _sim()
        sim.op_enter(("event-wait", self.name))
        if self._flag:
            return True
        deadline = None if timeout is None else sim.now + max(0.0, timeout)
        return sim.block(lambda: self._flag, deadline, what=self)


class Thread:
    def __init__(self, group=None, target=None, name=None, args=(), kwargs=None, *, daemon=None):
        self._target = target
        self._args = args
        self._kwargs = kwargs or {}
        self.name = name or _name("Thread")
        self.daemon = bool(daemon)
        self._st = None
        self._started = False
        self.ident = None

    def __repr__(self):
        return f"<SimThread {self.name}>"

    def run(self):
        if self._target is not None:
            self._target(*self._args, **self._kwargs)

    def start(self):
        sim = _sim()
        if self._st is not None:
            raise RuntimeError("threads can only be started once")
        sim.op_enter(("thread-start", self.name))
        sim.thread_starts += 1
        if sim.fail_start_at is not None and sim.thread_starts == sim.fail_start_at:
            sim.log("thread-start-failed", self.name)
            sim.probe("thread-start-failed")
            raise RuntimeError("can't start new thread")
        st = sim.spawn(self._boot, name=self.name)
        st.handle = self
        self._st = st
        # As CPython's Thread.start(): wait until the new thread has reported in (`self._started.wait()`). Until it
        # has, the thread exists but is_alive() is False, ident is None and join() raises - and a signal that arrives
        # during this wait raises in the caller although the thread exists (and may already be running)
        sim.op_enter(("thread-start-wait", self.name))
        if not self._started:
            sim.block(lambda: self._started, None, what=("thread-start-wait", self.name))

    def _boot(self):
        sim = _sim()
        self.ident = self._st.tid + 1000 if self._st is not None else sim.current.tid + 1000
        self._started = True
        sim.log("thread-boot", sim.current.tid, self.name)
        sim.strategy_after_effect()
        self.run()

    def join(self, timeout=None):
        sim = _sim()
        if self._st is None or not self._started:
            raise RuntimeError("cannot join thread before it is started")
        if self._st is sim.current:
            raise RuntimeError("cannot join current thread")
        sim.op_enter(("join", self.name))
        deadline = None if timeout is None else sim.now + max(0.0, timeout)
        st = self._st
        sim.block(lambda: st.state == DONE, deadline, what=("join", self.name))

    def is_alive(self):
        return self._st is not None and self._started and self._st.state != DONE

    @property
    def native_id(self):
        return self.ident

    def getName(self):
        return self.name

    def setName(self, name):
        self.name = name

    def isDaemon(self):
        return self.daemon

    def setDaemon(self, daemonic):
        self.daemon = bool(daemonic)


class Semaphore:
    """As CPython's (pure Python there, too): a counter under a Condition."""

    def __init__(self, value=1):
        if value < 0:
            raise ValueError("semaphore initial value must be >= 0")
        self._cond = Condition(Lock())
        self._value = value

    def acquire(self, blocking=True, timeout=None):
        if not blocking and timeout is not None:
            raise ValueError("can't specify timeout for non-blocking acquire")
        rc = False
        endtime = None
        with self._cond:
            while self._value == 0:
                if not blocking:
                    break
                if timeout is not None:
                    if endtime is None:
                        endtime = _sim().now + timeout
                    else:
                        timeout = endtime - _sim().now
                        if timeout <= 0:
                            break
                self._cond.wait(timeout)
            else:
                self._value -= 1
                rc = True
        return rc

    __enter__ = acquire

    def release(self, n=1):
        if n < 1:
            raise ValueError("n must be one or more")
        with self._cond:
            self._value += n
            self._cond.notify(n)

    def __exit__(self, t, v, tb):
        self.release()


class BoundedSemaphore(Semaphore):
    def __init__(self, value=1):
        super().__init__(value)
        self._initial_value = value

    def release(self, n=1):
        if n < 1:
            raise ValueError("n must be one or more")
        with self._cond:
            if self._value + n > self._initial_value:
                raise ValueError("Semaphore released too many times")
            self._value += n
            self._cond.notify(n)


class BrokenBarrierError(RuntimeError):
    pass


class Barrier:
    """As CPython's threading.Barrier (same state machine), on the simulated Condition."""

    def __init__(self, parties, action=None, timeout=None):
        self._cond = Condition(Lock())
        self._action = action
        self._timeout = timeout
        self._parties = parties
        self._state = 0   # 0 filling, 1 draining, -1 resetting, -2 broken
        self._count = 0

    def wait(self, timeout=None):
        if timeout is None:
            timeout = self._timeout
        with self._cond:
            self._enter()
            index = self._count
            self._count += 1
            try:
                if index + 1 == self._parties:
                    self._release()
                else:
                    self._wait(timeout)
                return index
            finally:
                self._count -= 1
                self._exit()

    def _enter(self):
        while self._state in (-1, 1):
            self._cond.wait()
        if self._state < 0:
            raise BrokenBarrierError
        assert self._state == 0

    def _release(self):
        try:
            if self._action:
                self._action()
            self._state = 1
            self._cond.notify_all()
        except BaseException:
            self._break()
            raise

    def _wait(self, timeout):
        if not self._cond.wait_for(lambda: self._state != 0, timeout):
            self._break()
            raise BrokenBarrierError
        if self._state < 0:
            raise BrokenBarrierError
        assert self._state == 1

    def _exit(self):
        if self._count == 0:
            if self._state in (-1, 1):
                self._state = 0
                self._cond.notify_all()

    def reset(self):
        with self._cond:
            if self._count > 0:
                if self._state == 0:
                    self._state = -1
                elif self._state == -2:
                    self._state = -1
            else:
                self._state = 0
            self._cond.notify_all()

    def abort(self):
        with self._cond:
            self._break()

    def _break(self):
        self._state = -2
        self._cond.notify_all()

    @property
    def parties(self):
        return self._parties

    @property
    def n_waiting(self):
        return self._count if self._state == 0 else 0

    @property
    def broken(self):
        return self._state == -2


class Timer(Thread):
    def __init__(self, interval, function, args=None, kwargs=None):
        Thread.__init__(self)
        self.interval = interval
        self.function = function
        self.args = args if args is not None else []
        self.kwargs = kwargs if kwargs is not None else {}
        self.finished = Event()

    def cancel(self):
        self.finished.set()

    def run(self):
        self.finished.wait(self.interval)
        if not self.finished.is_set():
            self.function(*self.args, **self.kwargs)
        self.finished.set()


class ThreadingShim:
    """Stands in for the `threading` module inside shimmed modules."""

    Lock = Lock
    RLock = RLock
    Condition = Condition
    Event = Event
    Thread = Thread
    Semaphore = Semaphore
    BoundedSemaphore = BoundedSemaphore
    Barrier = Barrier
    BrokenBarrierError = BrokenBarrierError
    Timer = Timer
    local = _real_threading.local          # simulated threads are real threads: thread-local storage just works
    TIMEOUT_MAX = _real_threading.TIMEOUT_MAX

    def __getattr__(self, name):
        # constants, exception types, hooks: whatever is not a synchronisation primitive comes from the real module
        return getattr(_real_threading, name)

    @staticmethod
    def main_thread():
        return _sim().threads[0]

    @staticmethod
    def enumerate():
        return [t.handle if t.handle is not None else t for t in _sim().threads if t.state != DONE]

    @staticmethod
    def current_thread():
        sim = _sim()
        h = sim.current.handle
        return h if h is not None else sim.current

    @staticmethod
    def get_ident():
        return _sim().current.tid + 1000

    @staticmethod
    def active_count():
        return sum(1 for t in _sim().threads if t.state != DONE)


class TimeShim:
    """Stands in for the `time` module: reads the virtual clock."""

    @staticmethod
    def time():
        return _sim().time()

    @staticmethod
    def monotonic():
        return _sim().now

    perf_counter = monotonic

    @staticmethod
    def sleep(seconds):
        _sim().sleep(seconds)

    def __getattr__(self, name):
        return getattr(_real_time, name)


class _SimDateTime(_dt.datetime):
    @classmethod
    def utcnow(cls):
        t = _sim().time()
        return _dt.datetime.fromtimestamp(t, _dt.timezone.utc).replace(tzinfo=None)

    @classmethod
    def now(cls, tz=None):
        t = _sim().time()
        return _dt.datetime.fromtimestamp(t, tz)


class DtShim:
    """Stands in for `datetime as dt` in the renderers (cosmetic clock)."""

    datetime = _SimDateTime
    timezone = _dt.timezone
    timedelta = _dt.timedelta
    date = _dt.date

    def __getattr__(self, name):
        return getattr(_dt, name)


THREADING = ThreadingShim()
TIME = TimeShim()
DT = DtShim()

"""Deterministic scheduler: baton-passed real threads, virtual time, choice tape.

Exactly one simulated thread executes Python code at any moment ("holds the
baton").  Every other simulated thread is parked on a private real lock (its
gate).  The scheduler decides, at every scheduling point, who runs next; that
decision is the only source of interleaving.  See DESIGN.md section 2.

Rules that keep CPython 3.12 alive (DESIGN 2.4):
  * trace callbacks never raise,
  * no two real threads ever run Python concurrently, also not in teardown,
  * dying threads never touch sys.settrace.
"""
import _thread
import hashlib
import math
import random
import sys

RUN, BLOCKED, DONE = 0, 1, 2
_STATE_NAMES = {RUN: "run", BLOCKED: "blocked", DONE: "done"}


class SimAbort(BaseException):
    """Raised from simulated operations once the simulation is frozen."""


class HarnessError(Exception):
    """The simulator itself failed (never a property verdict)."""


_CURRENT = None  # the active Sim of this process (one at a time)


def current_sim():
    return _CURRENT


class SimThread:
    __slots__ = (
        "tid", "name", "gate", "state", "pred", "deadline", "waiting_on",
        "exc", "done_lock", "pending_interrupt", "kind", "handle", "prio",
        "ops", "parked_in_trace", "intr_ok", "after_intr",
    )

    def __init__(self, tid, name, kind):
        self.tid = tid
        self.name = name
        self.kind = kind
        self.gate = _thread.allocate_lock()
        self.gate.acquire()
        self.done_lock = _thread.allocate_lock()
        self.done_lock.acquire()
        self.state = RUN
        self.pred = None
        self.deadline = None
        self.waiting_on = None
        self.exc = None
        self.pending_interrupt = None
        self.handle = None
        self.prio = 0
        self.ops = 0
        self.parked_in_trace = False
        self.intr_ok = True
        self.after_intr = False

    def describe(self):
        w = self.waiting_on
        return {
            "tid": self.tid,
            "name": self.name,
            "state": _STATE_NAMES[self.state],
            "waiting_on": None if w is None else str(w),
            "deadline": self.deadline,
        }


# --------------------------------------------------------------------------
# strategies
# --------------------------------------------------------------------------
class Strategy:
    name = "base"
    eager = False  # consult at the next trace point after an enabling effect

    def __init__(self, rng):
        self.rng = rng

    def on_spawn(self, sim, st):
        pass

    def trace_skip(self, sim):
        """How many upcoming trace pre-emption points to pass without asking."""
        return 0

    def decide(self, sim, enabled, can_stay, is_trace):
        """Return the SimThread to run next (must be in enabled)."""
        raise NotImplementedError


class RandomWalk(Strategy):
    def __init__(self, rng, p_trace, p_op):
        super().__init__(rng)
        self.p_trace = p_trace
        self.p_op = p_op
        self._logq = math.log(1.0 - p_trace) if 0 < p_trace < 1 else -1.0
        self.name = f"random-walk({p_trace},{p_op})"

    def trace_skip(self, sim):
        p = self.p_trace
        if p <= 0:
            return 1 << 60
        if p >= 1:
            return 0
        # geometric number of points at which we stay (one draw)
        u = self.rng.random()
        return int(math.log(1.0 - u) / self._logq)

    def decide(self, sim, enabled, can_stay, is_trace):
        cur = sim.current
        if can_stay:
            if not is_trace and self.rng.random() >= self.p_op:
                return cur  # (a trace-point consult means the gap elapsed: switch)
            others = [t for t in enabled if t is not cur]
            if not others:
                return cur
            return others[self.rng.randrange(len(others))]
        return enabled[self.rng.randrange(len(enabled))]


class RunToBlock(Strategy):
    """No pre-emption; random choice whenever the running thread blocks."""

    name = "run-to-block"

    def trace_skip(self, sim):
        return 1 << 60

    def decide(self, sim, enabled, can_stay, is_trace):
        if can_stay:
            return sim.current
        return enabled[self.rng.randrange(len(enabled))]


class PCT(Strategy):
    """PCT-style: random priorities, d priority change points."""

    eager = True

    def __init__(self, rng, depth, est_steps, per_phase=False):
        super().__init__(rng)
        self.name = f"pct({depth}{',phase' if per_phase else ''})"
        self.depth = depth
        self.window = max(2, est_steps)
        self.per_phase = per_phase
        self.change_points = [] if per_phase else sorted(
            rng.randrange(1, max(2, est_steps)) for _ in range(depth)
        )
        self.low = 0

    def on_spawn(self, sim, st):
        st.prio = self.rng.random() + 1.0
        if self.per_phase:
            live = sum(1 for t in sim.threads if t.state != DONE)
            if live == 2:
                # a thread pool is starting: place the change points inside this concurrent phase
                self.change_points = sorted(sim.steps + self.rng.randrange(1, self.window) for _ in range(self.depth))
                sim._next_consult = 0

    def trace_skip(self, sim):
        cps = self.change_points
        while cps and cps[0] <= sim.steps:
            cps.pop(0)
            self.low -= 1
            if sim.current is not None:
                sim.current.prio = self.low
            return 0
        if cps:
            return max(0, cps[0] - sim.steps - 1)
        return 1 << 60

    def decide(self, sim, enabled, can_stay, is_trace):
        cps = self.change_points
        while cps and cps[0] <= sim.steps:
            cps.pop(0)
            self.low -= 1
            if sim.current is not None:
                sim.current.prio = self.low
        best = enabled[0]
        for t in enabled:
            if t.prio > best.prio:
                best = t
        return best


class TapeReplay(Strategy):
    """Replays a sparse tape {step: tid}; default rule elsewhere."""

    name = "tape"

    def __init__(self, tape):
        super().__init__(None)
        self.tape = {int(k): int(v) for k, v in tape}
        self.keys = sorted(self.tape)
        self.i = 0

    def trace_skip(self, sim):
        keys = self.keys
        while self.i < len(keys) and keys[self.i] <= sim.steps:
            self.i += 1
        if self.i < len(keys):
            return max(0, keys[self.i] - sim.steps - 1)
        return 1 << 60

    def decide(self, sim, enabled, can_stay, is_trace):
        want = self.tape.get(sim.steps)
        if want is not None:
            for t in enabled:
                if t.tid == want:
                    return t
        return default_choice(sim, enabled, can_stay)


def default_choice(sim, enabled, can_stay):
    if can_stay:
        return sim.current
    return enabled[0]  # lowest tid (threads kept in tid order)


def make_strategy(spec, rng):
    kind = spec[0]
    if kind == "rw":
        return RandomWalk(rng, spec[1], spec[2])
    if kind == "rtb":
        return RunToBlock(rng)
    if kind == "pct":
        return PCT(rng, spec[1], spec[2], per_phase=(len(spec) > 3 and bool(spec[3])))
    if kind == "tape":
        return TapeReplay(spec[1])
    raise ValueError(spec)


# --------------------------------------------------------------------------
# the simulator
# --------------------------------------------------------------------------
class Sim:
    def __init__(
        self,
        seed,
        strategy=("rw", 0.05, 0.3),
        max_steps=400_000,
        max_vtime=1e9,
        epoch=1_700_000_000.0,
    ):
        self.seed = seed
        self.rng = random.Random(seed)
        self.strategy_spec = strategy
        self.strategy = make_strategy(strategy, self.rng)
        self.max_steps = max_steps
        self.max_vtime = max_vtime
        self.epoch = epoch
        self.now = 0.0
        self.steps = 0
        self.threads = []
        self.current = None
        self.client = None
        self.events = []
        self.tape = []  # sparse: [step, tid] where choice != default
        self.switches = 0
        self.preemptions = 0
        self.clock_jumps = 0
        self.aborted = False
        self.abort_reason = None
        self.hung = None
        self.teardown = False
        self.draining = False
        self._next_consult = 0
        self._drain_flag = False
        self._drain_cap = 0
        self._h = hashlib.sha256()
        self._ih = hashlib.sha256()
        self.on_quiescent = []
        self.on_event = []
        self.probes = {}
        self.interrupts_delivered = 0
        self.leaked = []
        self.thread_deaths = []
        self.seq = 0
        self.thread_starts = 0
        self.fail_start_at = None

    # ---- logging ---------------------------------------------------------
    def log(self, kind, *data):
        """Append an event; returns its global sequence number."""
        self.seq += 1
        tid = self.current.tid if self.current is not None else -1
        ev = (self.seq, self.now, tid, kind) + data
        self.events.append(ev)
        self._h.update(repr(ev).encode())
        self._ih.update(repr((tid, kind)).encode())
        for cb in self.on_event:
            cb(ev)
        return self.seq

    def probe(self, name, n=1):
        self.probes[name] = self.probes.get(name, 0) + n

    def digest(self):
        return self._h.hexdigest()

    def interleaving_digest(self):
        return self._ih.hexdigest()[:16]

    # ---- thread management ----------------------------------------------
    def _new_thread(self, name, kind):
        st = SimThread(len(self.threads), name, kind)
        self.threads.append(st)
        self.strategy.on_spawn(self, st)
        return st

    def spawn(self, fn, name=None, kind="thread"):
        """Create a simulated thread running fn(); it starts parked."""
        st = self._new_thread(name or f"T{len(self.threads)}", kind)
        self.log("thread-start", st.tid, st.name)
        _thread.start_new_thread(self._thread_main, (st, fn))
        return st

    def _thread_main(self, st, fn):
        st.gate.acquire()  # park before doing anything
        if self.aborted:
            st.state = DONE
            st.done_lock.release()
            if not self.teardown:
                # should not happen: only teardown releases under abort
                pass
            return
        try:
            fn()
        except SimAbort:
            pass
        except BaseException as e:  # the simulated thread died
            st.exc = e
            if not self.aborted:
                self.thread_deaths.append((st.tid, st.name, repr(e)))
        self._thread_exit(st)

    def _thread_exit(self, st):
        st.state = DONE
        if self.teardown or self.aborted:
            st.done_lock.release()
            if self.aborted and not self.teardown:
                # hand the baton to the client so it can unwind and tear down
                self.current = self.client
                self.client.gate.release()
            return
        self.log("thread-exit", st.tid, None if st.exc is None else type(st.exc).__name__)
        st.done_lock.release()
        try:
            nxt = self._choose(can_stay=False, is_trace=False)
        except SimAbort:
            self.current = self.client
            self.client.gate.release()
            return
        self.current = nxt
        self.switches += 1
        nxt.gate.release()

    # ---- choosing --------------------------------------------------------
    def _enabled(self, include_current):
        out = []
        cur = self.current
        now = self.now
        for t in self.threads:
            s = t.state
            if s == RUN:
                if t is cur and not include_current:
                    continue
                out.append(t)
            elif s == BLOCKED:
                if (
                    (t.pending_interrupt is not None and t.intr_ok)
                    or t.pred()
                    or (t.deadline is not None and t.deadline <= now)
                ):
                    out.append(t)
        return out

    def _choose(self, can_stay, is_trace):
        """Pick next thread to run. May advance virtual time. May abort."""
        if self.draining and self.steps >= self._drain_cap and not self._drain_flag:
            self._drain_flag = True
            if self.current is not self.client:
                return self.client
        while True:
            enabled = self._enabled(include_current=can_stay)
            if enabled:
                break
            # nobody can run: advance the clock or report a hang
            dl = [t.deadline for t in self.threads if t.state == BLOCKED and t.deadline is not None]
            if not dl:
                if self.draining:
                    self._drain_flag = True
                    return self.client
                self._report_hang("deadlock")
                raise SimAbort()
            nxt = min(dl)
            for cb in self.on_quiescent:
                cb(self.now, nxt)
            if nxt > self.max_vtime:
                if self.draining:
                    self._drain_flag = True
                    return self.client
                self._report_hang("virtual-time-cap")
                raise SimAbort()
            if nxt > self.now:
                self.now = nxt
                self.clock_jumps += 1
        choice = self.strategy.decide(self, enabled, can_stay, is_trace)
        dflt = self.current if can_stay else enabled[0]
        if choice is not dflt:
            self.tape.append([self.steps, choice.tid])
        return choice

    def _report_hang(self, why):
        self.hung = {
            "why": why,
            "now": self.now,
            "steps": self.steps,
            "threads": [t.describe() for t in self.threads if t.state != DONE],
        }
        self.aborted = True
        self.abort_reason = why

    def _switch_to(self, nxt):
        me = self.current
        if nxt is me:
            return
        self.switches += 1
        self.current = nxt
        nxt.gate.release()
        me.gate.acquire()
        # resumed: self.current is me again (set by whoever released us)

    # ---- scheduling points ----------------------------------------------
    def preempt(self):
        """Called from trace callbacks only: never raises."""
        if self.aborted or self.current is None:
            return
        self.steps += 1
        if self.steps < self._next_consult:
            return
        if self.steps > self.max_steps:
            self._report_hang("step-cap")
            return
        me = self.current
        try:
            nxt = self._choose(can_stay=True, is_trace=True)
        except SimAbort:
            return
        self._next_consult = self.steps + 1 + self.strategy.trace_skip(self)
        if nxt is not me:
            self.preemptions += 1
            me.parked_in_trace = True
            self._switch_to(nxt)
            me.parked_in_trace = False

    def op_enter(self, what=None, interruptible=True):
        """Entry of every simulated operation: abort check, interrupt
        delivery, scheduling point."""
        if self.aborted:
            raise SimAbort()
        me = self.current
        me.ops += 1
        if me.after_intr and interruptible:
            # the first acquiring / blocking operation after the raise (a lock release while the exception
            # unwinds out of a `with` block does not count: the handler has not run yet)
            me.after_intr = False
            self.log("post-interrupt-op", me.tid, str(what))
        if interruptible and me.pending_interrupt is not None:
            self._deliver_interrupt(me, what)
        self.steps += 1
        if self.steps > self.max_steps:
            self._report_hang("step-cap")
            raise SimAbort()
        nxt = self._choose(can_stay=True, is_trace=False)
        if nxt is not me:
            self._switch_to(nxt)
            if self.aborted:
                raise SimAbort()
            if interruptible and me.pending_interrupt is not None:
                self._deliver_interrupt(me, what)

    def _deliver_interrupt(self, me, what):
        exc = me.pending_interrupt
        me.pending_interrupt = None
        self.interrupts_delivered += 1
        me.after_intr = True
        self.log("interrupt-delivered", me.tid, str(what))
        raise exc

    def block(self, pred, deadline=None, what=None, interruptible=True):
        """Block the current thread until pred() or the deadline.
        Returns True if pred held, False on timeout."""
        me = self.current
        while True:
            if self.aborted:
                raise SimAbort()
            if interruptible and me.pending_interrupt is not None:
                self._deliver_interrupt(me, what)
            if pred():
                return True
            if deadline is not None and self.now >= deadline:
                return False
            me.state = BLOCKED
            me.pred = pred
            me.intr_ok = interruptible
            me.deadline = deadline
            me.waiting_on = what
            self.steps += 1
            try:
                if self.steps > self.max_steps:
                    self._report_hang("step-cap")
                    raise SimAbort()
                nxt = self._choose(can_stay=False, is_trace=False)
                self._switch_to(nxt)
            finally:
                me.state = RUN
                me.pred = None
                me.deadline = None
                me.waiting_on = None

    def strategy_after_effect(self):
        """An operation just enabled other threads (release/notify/set)."""
        if self.strategy.eager:
            self._next_consult = 0

    def sleep(self, duration, what="sleep"):
        if duration <= 0:
            self.op_enter(what)
            return
        self.op_enter(what)
        self.block(_never, self.now + duration, what=what)

    def yield_(self, what="yield"):
        self.op_enter(what)

    def time(self):
        return self.epoch + self.now

    def advance(self, seconds):
        """Client-side clock jump between operations."""
        self.now += seconds

    # ---- faults ----------------------------------------------------------
    def interrupt(self, st, exc):
        """Make exc pending in thread st; delivered at its next simulated
        operation (or wakes it if blocked interruptibly)."""
        st.pending_interrupt = exc
        self.log("interrupt-armed", st.tid)

    def crash(self, why="crash"):
        """Process death: freeze everything. Raises SimAbort in the caller
        (possibly after handing the baton to the client)."""
        if self.aborted:
            raise SimAbort()
        self.log("crash", why)
        self.aborted = True
        self.abort_reason = why
        me = self.current
        if me is not self.client:
            # hand over to client, park; on resume unwind
            self.current = self.client
            self.client.gate.release()
            me.gate.acquire()
        raise SimAbort()

    # ---- running ---------------------------------------------------------
    def run(self, fn, drain_steps=20000):
        """Run fn() as the client (simulated thread 0) in the calling real
        thread. Returns (result, exception)."""
        global _CURRENT
        if _CURRENT is not None:
            raise HarnessError("nested Sim.run")
        _CURRENT = self
        st = self._new_thread("client", "client")
        self.client = st
        self.current = st
        self._next_consult = self.steps + 1 + self.strategy.trace_skip(self)
        result = None
        exc = None
        try:
            try:
                result = fn()
            except SimAbort:
                pass
            except BaseException as e:
                exc = e
            # drain: let remaining threads run to quiescence
            if not self.aborted:
                self._drain(drain_steps)
        finally:
            try:
                self._teardown()
            finally:
                _CURRENT = None
        return result, exc

    def _drain(self, budget):
        me = self.client
        others = [t for t in self.threads if t is not me and t.state != DONE]
        if not others:
            return
        self.draining = True
        self._drain_flag = False
        cap = self._drain_cap = self.steps + budget
        old_cap, self.max_steps = self.max_steps, max(self.max_steps, cap + 1000)
        vcap, self.max_vtime = self.max_vtime, min(self.max_vtime, self.now + 7200.0)
        try:
            def all_done():
                return self._drain_flag or all(
                    t.state == DONE for t in self.threads if t is not me
                )
            try:
                self.block(all_done, None, what="drain", interruptible=False)
            except SimAbort:
                pass
        finally:
            self.draining = False
            self.max_steps = old_cap
            self.max_vtime = vcap
        me.state = RUN
        self.current = me
        self.leaked = [t.describe() for t in self.threads if t is not me and t.state != DONE]

    def _teardown(self):
        self.aborted = True
        if self.abort_reason is None:
            self.abort_reason = "end"
        self.teardown = True
        me = self.client
        me.state = DONE
        for t in self.threads:
            if t is me or t.state == DONE:
                continue
            self.current = t
            t.gate.release()
            if not t.done_lock.acquire(True, 20.0):
                raise HarnessError(f"thread {t.tid} {t.name} did not unwind in teardown")
        self.current = None


def _never():
    return False

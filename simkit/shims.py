"""Install / remove the module-attribute seams (DESIGN section 1).

No file under /repo is modified: every seam is a module attribute of an
uberjob module (or of stdlib `queue`) that is swapped for the duration of one
simulated run.
"""
import importlib
import os
import sys

from simkit import prims

_INSTALLED = []
_NODE_TABLE = {}
_NODE_STATE = {"n": 0, "salt": 0}

REPO_SRC = os.environ.get("UBERJOB_SRC", "/repo/src")


def import_uberjob():
    """Import uberjob from the working tree and heavy third-party modules
    before any shim goes in."""
    import uberjob  # noqa

    if not os.path.realpath(uberjob.__file__).startswith(os.path.realpath(REPO_SRC)):
        raise RuntimeError(f"uberjob imported from {uberjob.__file__}, expected {REPO_SRC}")
    import uberjob.progress  # noqa
    import uberjob.stores  # noqa
    import uberjob._execution.run_function_on_graph  # noqa
    import uberjob._execution.scheduler  # noqa
    import uberjob._transformations.caching  # noqa
    # The lock every Plan creates for itself is a simulated one for the whole life of a harness process, also for
    # Plans built before their run is simulated (the simulated RLock works outside a simulation as plain bookkeeping):
    # runs of one Plan from several simulated threads - or a change that makes copies share the lock - must contend
    # for it under the scheduler, not for a real lock the scheduler cannot see.
    import uberjob._plan as _plan_mod

    if getattr(_plan_mod, "RLock", None) is not prims.RLock and hasattr(_plan_mod, "RLock"):
        _plan_mod.RLock = prims.RLock
    return uberjob


def src(rel):
    return os.path.join(REPO_SRC, "uberjob", rel)


# trace modes: 2 = opcode, 1 = line
def trace_files():
    eng = 2
    return {
        src("_execution/run_function_on_graph.py"): eng,
        src("_execution/scheduler.py"): eng,
        src("_execution/run_physical.py"): 3,
        src("_transformations/caching.py"): 3,
        src("_util/retry.py"): 1,
        src("_run.py"): 1,
        src("_plan.py"): 1,
        src("_registry.py"): 1,
        src("progress/_simple_progress_observer.py"): 3,
        src("progress/_composite_progress_observer.py"): 1,
    }


def _patch(mod, attr, value):
    old = getattr(mod, attr)
    setattr(mod, attr, value)
    _INSTALLED.append((mod, attr, old))


def _mix(n, salt):
    # bijective-ish 60-bit mix so that set order varies with the salt
    x = (n * 0x9E3779B97F4A7C15 + salt * 0xBF58476D1CE4E5B9) & 0xFFFFFFFFFFFFFFFF
    x ^= x >> 30
    x = (x * 0xBF58476D1CE4E5B9) & 0xFFFFFFFFFFFFFFFF
    x ^= x >> 27
    x = (x * 0x94D049BB133111EB) & 0xFFFFFFFFFFFFFFFF
    x ^= x >> 31
    return x & 0x0FFFFFFFFFFFFFFF


def _node_hash(self):
    h = _NODE_TABLE.get(id(self))
    if h is None:
        _NODE_STATE["n"] += 1
        h = _NODE_TABLE[id(self)] = _mix(_NODE_STATE["n"], _NODE_STATE["salt"])
    return h


def reset_node_table():
    """Forget all node hashes (start of a case: no node of an earlier case is
    looked up again)."""
    _NODE_TABLE.clear()
    _NODE_STATE["n"] = 0


def install_node_hash(salt):
    """Replace Node's identity hash by a salted creation counter so that the
    iteration order of sets of nodes is a replayable choice."""
    import uberjob.graph as g

    _NODE_STATE["salt"] = salt
    if getattr(g.Node, "_verif_hash", False):
        return
    orig_init = g.Node.__init__

    def __init__(self, *, scope=()):
        _NODE_STATE["n"] += 1
        _NODE_TABLE[id(self)] = _mix(_NODE_STATE["n"], _NODE_STATE["salt"])
        orig_init(self, scope=scope)

    g.Node.__init__ = __init__
    g.Node.__hash__ = _node_hash
    g.Node._verif_hash = True


def install(sim_time=True, gran="opcode"):
    """Swap in simulated threading / time. Call inside the worker process,
    before Sim.run; undo with uninstall()."""
    import queue

    import uberjob._execution.run_function_on_graph as rfg
    import uberjob._plan as _plan
    import uberjob.progress._console_progress_observer as cpo
    import uberjob.progress._html_progress_observer as hpo
    import uberjob.progress._ipython_progress_observer as ipo
    import uberjob.progress._simple_progress_observer as spo

    if _INSTALLED:
        raise RuntimeError("shims already installed")
    from simkit import trace

    trace.install(trace_files())
    trace.set_granularity(gran)
    prims._COUNTER[0] = 0
    _patch(queue, "threading", prims.THREADING)
    # the C-implemented SimpleQueue blocks on a real lock; the standard library's own pure-Python fallback is built
    # on threading.Semaphore and works under the simulator
    _patch(queue, "SimpleQueue", queue._PySimpleQueue)
    _patch(rfg, "threading", prims.THREADING)
    _patch(spo, "threading", prims.THREADING)
    _patch(_plan, "RLock", prims.RLock)
    if sim_time:
        _patch(spo, "time", prims.TIME)
        _patch(cpo, "dt", prims.DT)
        _patch(hpo, "dt", prims.DT)
        _patch(ipo, "dt", prims.DT)
    _patch_discovered_seams(sim_time)


class _OsWithCpuCount:
    def __init__(self, real, n):
        self._real, self._n = real, n

    def cpu_count(self):
        return self._n

    def __getattr__(self, name):
        return getattr(self._real, name)


def patch_cpu_count(n):
    """os.cpu_count() as seen by the engine (the default worker count derives from it)."""
    import uberjob._execution.run_function_on_graph as rfg

    if hasattr(rfg, "os"):
        _patch(rfg, "os", _OsWithCpuCount(rfg.os, n))


import queue as _queue_mod  # noqa: E402

_ORIG_SIMPLE_QUEUE = _queue_mod.SimpleQueue
_DISCOVERED = None   # [(owner, attr, kind)] found by the first scan of this process (modules do not change afterwards)


def _patch_discovered_seams(sim_time=True):
    """Any other uberjob module that (in the tree under test) refers to the `threading` module, imports names from
    it, or holds lock objects created at import time (module globals, class attributes) gets the simulated
    counterparts too - a real lock inside the simulation would block the one running thread for good."""
    global _DISCOVERED
    import queue as real_queue
    import threading as real
    import time as real_time

    if _DISCOVERED is None:
        lock_types = (type(real.Lock()), type(real.RLock()))
        names = ("Lock", "RLock", "Condition", "Event", "Thread", "Semaphore", "BoundedSemaphore", "Barrier", "Timer")
        time_names = ("time", "monotonic", "perf_counter", "sleep")
        c_simple_queue = _ORIG_SIMPLE_QUEUE
        done = {(id(m), a) for m, a, _ in _INSTALLED}
        found = []
        for name, mod in sorted(sys.modules.items()):
            if mod is None or not (name == "uberjob" or name.startswith("uberjob.")):
                continue
            d = vars(mod)
            for attr, val in sorted(d.items()):
                if (id(mod), attr) in done:
                    continue
                if val is real:
                    found.append((mod, attr, "module"))
                elif val is real_time:
                    found.append((mod, attr, "time-module"))     # every clock the code under test reads is virtual
                elif callable(val) and any(val is getattr(real_time, n) for n in time_names):
                    found.append((mod, attr, "time:" + [n for n in time_names if val is getattr(real_time, n)][0]))
                elif val is c_simple_queue:
                    found.append((mod, attr, "simple-queue"))
                elif attr in names and val is getattr(real, attr):
                    found.append((mod, attr, "name"))
                elif isinstance(val, lock_types):
                    found.append((mod, attr, "rlock" if isinstance(val, lock_types[1]) else "lock"))
                elif isinstance(val, type) and getattr(val, "__module__", None) == name:
                    if any(b is real.Thread or b is real.Timer for b in val.__bases__):
                        found.append((val, "__bases__", "thread-bases"))   # class Worker(threading.Thread)
                    for cattr, cval in sorted(vars(val).items()):
                        if isinstance(cval, lock_types):
                            found.append((val, cattr, "rlock" if isinstance(cval, lock_types[1]) else "lock"))
        _DISCOVERED = found
    for owner, attr, kind in _DISCOVERED:
        if kind.startswith("time") and not sim_time:
            continue
        if kind == "module":
            _patch(owner, attr, prims.THREADING)
        elif kind == "time-module":
            _patch(owner, attr, prims.TIME)
        elif kind.startswith("time:"):
            _patch(owner, attr, getattr(prims.TIME, kind[5:]))
        elif kind == "simple-queue":
            _patch(owner, attr, real_queue._PySimpleQueue)
        elif kind == "thread-bases":
            _patch(owner, attr, tuple(prims.Thread if b is real.Thread else prims.Timer if b is real.Timer else b
                                      for b in owner.__bases__))
        elif kind == "name":
            _patch(owner, attr, getattr(prims, attr))
        else:
            _patch(owner, attr, prims.RLock() if kind == "rlock" else prims.Lock())


def uninstall():
    from simkit import trace

    trace.set_granularity("sync")
    while _INSTALLED:
        mod, attr, old = _INSTALLED.pop()
        setattr(mod, attr, old)

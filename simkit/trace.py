"""Pre-emption points inside the engine via sys.monitoring (PEP 669).

Local INSTRUCTION / LINE events are switched on once per process for every
code object of the listed uberjob files; the callbacks do exactly one thing:
offer the active simulation a pre-emption point.  They never raise.
(An earlier version used sys.settrace; its opcode events start late on the
first execution of a code object, which broke replay - see DESIGN
"Corrections".)
"""
import gc
import sys
import types

from simkit import sched

TOOL = 4
_MODES = {}      # code object -> 2 (per instruction at 'opcode') | 3 (per instruction only at 'opcode+') | 1 (lines)
_STATE = {"installed": False, "gran": "sync"}
GRAN_LEVEL = {"sync": 0, "line": 1, "opcode": 2, "opcode+": 3}
_level = 0


def set_granularity(gran):
    global _level
    _STATE["gran"] = gran
    _level = GRAN_LEVEL[gran]


def _on_instruction(code, offset):
    if _level >= 2:
        sim = sched._CURRENT
        if sim is not None and _level >= _MODES.get(code, 9):
            sim.preempt()


def _on_line(code, line):
    if _level:
        sim = sched._CURRENT
        if sim is not None:
            mode = _MODES.get(code, 9)
            if mode != 1 and _level >= mode:
                return  # this file is traced per instruction in this run (mode 1 files only ever have line events)
            sim.preempt()


def _collect(code, files, out):
    if code.co_filename in files and code not in out:
        out[code] = files[code.co_filename]
        for c in code.co_consts:
            if isinstance(c, types.CodeType):
                _collect(c, files, out)


def install(files):
    """files: {filename: 2|1}. Idempotent per process."""
    if _STATE["installed"]:
        return
    mon = sys.monitoring
    mon.use_tool_id(TOOL, "verif-sim")
    found = {}
    for o in gc.get_objects():
        if isinstance(o, types.FunctionType):
            _collect(o.__code__, files, found)
    for code, mode in found.items():
        ev = mon.events.LINE
        if mode in (2, 3):
            ev |= mon.events.INSTRUCTION
        mon.set_local_events(TOOL, code, ev)
    _MODES.update(found)
    mon.register_callback(TOOL, mon.events.INSTRUCTION, _on_instruction)
    mon.register_callback(TOOL, mon.events.LINE, _on_line)
    _STATE["installed"] = True
    return len(found)

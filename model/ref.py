"""Reference model over world descriptions (DESIGN 4.2).

Independent of uberjob and networkx: works on the JSON-able description only.
"""
from model.core import Norm, Val, call_digest

CONTAINERS = ("L", "T", "S", "D")


# --------------------------------------------------------------------------
# structure
# --------------------------------------------------------------------------
def spec_refs(spec, out=None):
    """Node ids referenced by an argument spec, through exact built-in
    containers only (container subclasses 'X' are opaque)."""
    if out is None:
        out = []
    k = spec[0]
    if k == "n":
        out.append(spec[1])
    elif k in ("L", "T", "S"):
        for s in spec[1]:
            spec_refs(s, out)
    elif k == "M":
        for s in spec[2]:
            spec_refs(s, out)
    elif k == "D":
        for ks, vs in spec[1]:
            spec_refs(ks, out)
            spec_refs(vs, out)
    return out


def has_node(spec):
    return bool(spec_refs(spec))


def by_id(world):
    return {n["id"]: n for n in world["nodes"]}


def arg_preds(node):
    out = []
    for s in node.get("args", ()):
        spec_refs(s, out)
    for _, s in node.get("kwargs", ()):
        spec_refs(s, out)
    if node["kind"] == "item":
        out.append(node["of"])
    return out


def direct_preds(world):
    """id -> list of distinct predecessor ids (argument refs and plain deps,
    incl. late deps)."""
    preds = {}
    for n in world["nodes"]:
        p = list(arg_preds(n)) + list(n.get("deps", ()))
        preds[n["id"]] = p
    for u, v in world.get("late_deps", ()):
        preds[v].append(u)
    for u, v in world.get("back_edges", ()):
        pass  # cyclic variants are not evaluated by the reference
    return {i: list(dict.fromkeys(p)) for i, p in preds.items()}


def plain_preds(world):
    out = {n["id"]: list(n.get("deps", ())) for n in world["nodes"]}
    for u, v in world.get("late_deps", ()):
        out[v].append(u)
    return out


def topo_order(world):
    preds = direct_preds(world)
    done = set()
    order = []

    def visit(i, stack=()):
        if i in done:
            return
        if i in stack:
            raise ValueError("cycle in world")
        for p in preds[i]:
            visit(p, stack + (i,))
        done.add(i)
        order.append(i)

    for n in world["nodes"]:
        visit(n["id"])
    return order


def deps_star(world):
    """id -> set of all transitive dependencies."""
    preds = direct_preds(world)
    out = {}
    for i in topo_order(world):
        s = set()
        for p in preds[i]:
            s.add(p)
            s |= out[p]
        out[i] = s
    return out


def is_call(node):
    """Does the node execute user-visible workload code (a call event)?"""
    return node["kind"] == "call"


# --------------------------------------------------------------------------
# evaluation
# --------------------------------------------------------------------------
class Missing(Exception):
    pass


def eval_spec(spec, seen, objs):
    k = spec[0]
    if k == "n":
        return seen(spec[1])
    if k == "c":
        return spec[1]
    if k == "o":
        return objs[("o", spec[1])]
    if k == "e":
        return objs[("e", spec[1])]
    if k == "X":
        return objs[("X", spec[1])]
    if not has_node(spec):
        # supplied object is passed as is; equal value rebuilt here, identity
        # is checked separately against the supplied object
        pass
    if k == "M":
        # the caller's own list object, holding these items at the time of this call
        return [eval_spec(s, seen, objs) for s in spec[2]]
    if k == "L":
        return [eval_spec(s, seen, objs) for s in spec[1]]
    if k == "T":
        return tuple(eval_spec(s, seen, objs) for s in spec[1])
    if k == "S":
        return {eval_spec(s, seen, objs) for s in spec[1]}
    if k == "D":
        return dict((eval_spec(a, seen, objs), eval_spec(b, seen, objs)) for a, b in spec[1])
    raise ValueError(spec)


def node_raw(node, seen, objs, version=0):
    """Raw result of executing a node given the values its arguments see."""
    kind = node["kind"]
    if kind == "lit":
        return eval_spec(node["value"], seen, objs)
    if kind == "gather":
        return eval_spec(node["args"][0], seen, objs)
    if kind == "unpack":
        it = eval_spec(node["args"][0], seen, objs)
        t = tuple(it)
        if len(t) != node["n"]:
            raise ValueError("unpack length")
        return t
    if kind == "item":
        return seen(node["of"])[node["index"]]
    if kind == "call":
        args = [eval_spec(s, seen, objs) for s in node.get("args", ())]
        kwargs = [(nm, eval_spec(s, seen, objs)) for nm, s in node.get("kwargs", ())]
        dig = call_digest(node["id"], args, kwargs, version)
        ret = node.get("ret", "val")
        if ret == "val":
            return Val(node["id"], dig)
        if ret[0] == "const":
            return ret[1]
        if ret[0] == "tuple":
            return tuple(Val(node["id"], dig, i) for i in range(ret[1]))
        if ret[0] == "list":
            return [Val(node["id"], dig, i) for i in range(ret[1])]
        raise ValueError(ret)
    raise ValueError(kind)


def side_value(node, raw_dig):
    return Val(node["id"], raw_dig, "side")


def fed_value(nid, raw):
    """What a store write 'feeds' into a linked source store (e.g. writing a
    table also produces the report that a source node reads)."""
    from model.core import canon, digest

    return Val(nid, digest(canon(raw)), "fed")


def derived_stores(world):
    """Stores whose content is produced by the plan itself (side-effect
    writers, stores fed by another store's write): not pure sources."""
    out = {n["writes"] for n in world["nodes"] if n.get("writes")}
    out |= {sd["feeds"] for sd in world.get("stores", {}).values() if sd.get("feeds")}
    # a store written by a stored node and read through a second (source) entry on the same store object
    out |= {n["store"] for n in world["nodes"] if n.get("store") and n["kind"] != "src"}
    return out


def file_backable(world, kinds=("call",)):
    """Stores that may be turned into real files of the bundled stores: owned by a node of the given kinds, not a
    side-effect writer's target, not feeding or fed by another entry, not shared with a source entry."""
    bad = {n["writes"] for n in world["nodes"] if n.get("writes")}
    bad |= {sd["feeds"] for sd in world.get("stores", {}).values() if sd.get("feeds")}
    bad |= {nm for nm, sd in world.get("stores", {}).items() if sd.get("feeds") or sd.get("shared")}
    bad |= {n["store"] for n in world["nodes"] if n["kind"] == "src"}
    out = []
    for n in world["nodes"]:
        if n.get("store") and n["kind"] in kinds and n["store"] not in bad and n["store"] not in out:
            out.append(n["store"])
    return out


def norm(world, store_name, v):
    fl = world["stores"][store_name]["flavour"]
    return Norm(v) if fl == "norm" else v


def evaluate(world, objs, sources=None):
    """From-scratch evaluation.

    sources: {store name: raw content} for pure source stores.
    Returns (seen: id -> value consumers receive, stores: name -> raw content
    for every store written by the evaluation).
    """
    nodes = by_id(world)
    seen_map = {}
    stores = dict(sources or {})

    def seen(i):
        return seen_map[i]

    for i in topo_order(world):
        n = nodes[i]
        if n["kind"] == "src":
            name = n["store"]
            if name not in stores:
                raise Missing(name)
            seen_map[i] = norm(world, name, stores[name])
            continue
        raw = node_raw(n, seen, objs, world.get("_versions", {}).get(i, 0))
        if n.get("writes"):
            # side-effect writer: content derives from its own result digest
            stores[n["writes"]] = side_value(n, raw.dig if isinstance(raw, Val) else str(raw))
        if n.get("store"):
            stores[n["store"]] = raw
            fed = world["stores"][n["store"]].get("feeds")
            if fed:
                stores[fed] = fed_value(i, raw)
            seen_map[i] = norm(world, n["store"], raw)
        else:
            seen_map[i] = raw
    return seen_map, stores


def eval_output(world, seen_map, objs):
    out = world.get("output")
    if out is None:
        return None
    return eval_spec(out, lambda i: seen_map[i], objs)


# --------------------------------------------------------------------------
# registry oracles (C05)
# --------------------------------------------------------------------------
def registered(node):
    return bool(node.get("store"))


def is_source(node):
    return node["kind"] == "src"


def out_of_date(world, mtimes, fresh=None):
    """Declarative out-of-date set over true instants.

    mtimes: store name -> instant (number) or None when nothing is stored.
    Returns (stale set of ids, dontcare set of ids).
    """
    nodes = by_id(world)
    preds = direct_preds(world)
    stale = {}
    time = {}
    dontcare = set()
    for i in topo_order(world):
        n = nodes[i]
        P = preds[i]
        if any(stale[p] for p in P):
            stale[i] = True
            time[i] = None
            if any(p in dontcare for p in P):
                dontcare.add(i)
            continue
        if any(p in dontcare for p in P):
            dontcare.add(i)
        stale[i] = False
        ts = [time[p] for p in P if time[p] is not None]
        anc = max(ts) if ts else None
        if not registered(n):
            time[i] = anc
            continue
        own = mtimes.get(n["store"])
        if own is None:
            stale[i] = True
            time[i] = None
            continue
        src = is_source(n)
        if src and anc is None:
            # pure source (or dependent source without any timestamped
            # ancestor): never out of date unless missing.  Under fresh_time
            # the statement does not determine the dependent-source case.
            if P and fresh is not None:
                dontcare.add(i)
            time[i] = own
            continue
        cands = [own]
        if anc is not None:
            cands.append(anc)
        if fresh is not None:
            cands.append(fresh)
        if max(cands) > own:
            stale[i] = True
            time[i] = None
        else:
            time[i] = own
    return {i for i, s in stale.items() if s and registered(nodes[i])}, dontcare


def needed(world, S, want_output=True):
    """Which nodes must execute / which stores may be read, from the
    statement of C05.  Returns (computed ids (unregistered executed +
    registered rebuilt), reads set of ids, writes set of ids)."""
    nodes = by_id(world)
    aps = {n["id"]: list(dict.fromkeys(arg_preds(n))) for n in world["nodes"]}
    pps = plain_preds(world)
    computed = set()
    reads = set()
    rebuilt = set()

    def need_value(i):
        n = nodes[i]
        if registered(n):
            reads.add(i)
            if i in S:
                rebuild(i)
        else:
            compute(i)

    def need_order(i):
        n = nodes[i]
        if registered(n):
            if i in S:
                rebuild(i)
        else:
            compute(i)

    def rebuild(i):
        if i in rebuilt:
            return
        rebuilt.add(i)
        n = nodes[i]
        if is_source(n):
            for p in aps[i]:
                need_order(p)
            for p in pps[i]:
                need_order(p)
        else:
            compute(i)

    def compute(i):
        if i in computed:
            return
        computed.add(i)
        for p in aps[i]:
            need_value(p)
        for p in pps[i]:
            need_order(p)

    for i in sorted(S):
        rebuild(i)
    if want_output and world.get("output") is not None:
        for i in dict.fromkeys(spec_refs(world["output"])):
            need_value(i)
    writes = {i for i in rebuilt if not is_source(nodes[i])}
    return computed, reads, writes

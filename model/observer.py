"""Recording progress observer (public ProgressObserver ABC)."""
from uberjob.progress import Progress, ProgressObserver

from simkit.sched import current_sim


class ObserverStartError(Exception):
    """An observer that cannot start (e.g. its output file cannot be opened)."""


class RecordingObserver(ProgressObserver):
    def __init__(self, tag="obs", yield_in_callbacks=False, fail_enter=False, fail_exit=False):
        self.tag = tag
        self.records = []
        self.yield_in_callbacks = yield_in_callbacks
        self.fail_enter = fail_enter
        self.fail_exit = fail_exit

    def _rec(self, *ev):
        sim = current_sim()
        seq = sim.log("obs", self.tag, *ev) if sim is not None else len(self.records)
        self.records.append((seq,) + ev)
        if self.yield_in_callbacks and sim is not None and not sim.aborted:
            sim.op_enter("obs", interruptible=False)

    def __enter__(self):
        if self.fail_enter:
            self._rec("enter-raised")
            raise ObserverStartError(self.tag)
        self._rec("enter")

    def __exit__(self, exc_type, exc_val, exc_tb):
        self._rec("exit", None if exc_type is None else exc_type.__name__)
        if self.fail_exit:
            raise ObserverStartError(self.tag + " (cannot finish)")

    def increment_total(self, *, section, scope, amount):
        self._rec("total", section, scope, amount)

    def increment_running(self, *, section, scope):
        self._rec("running", section, scope)

    def increment_completed(self, *, section, scope):
        self._rec("completed", section, scope)

    def increment_failed(self, *, section, scope, exception):
        self._rec("failed", section, scope, type(exception).__name__)


def recording_progress(observers):
    """A Progress whose observer() hands out (and remembers) recorders."""

    def create():
        o = RecordingObserver(tag=f"obs{len(observers)}")
        observers.append(o)
        return o

    return Progress(create)

"""Build a uberjob Plan/Registry from a world description, and the Runtime
that workload functions and stores consult (faults, recording, cuts)."""
import sys
import weakref

from model import core, ref
from simkit import fs as _fs
from model.core import EXC_TYPES, MyDict, MyList, MySet, MyTuple, Norm, Opaque, Val, canon
from model.stores import RT, STORE_CLASSES, NothingStored, render_instant


class CutError(Exception):
    """Injected failure at a cut position (C08, exception form)."""


def _frames(skip=1, limit=16):
    f = sys._getframe(skip)
    out = []
    while f is not None and len(out) < limit:
        out.append((f.f_code.co_name, f.f_code.co_filename, f.f_lineno))
        f = f.f_back
    return out


def _at_depth(d, thunk):
    if d <= 0:
        return thunk()
    return _at_depth(d - 1, thunk)


_HELPERS = {}
HELPER_FILE = [None]   # file name under which the nesting helper is compiled (C19: where users build plans)


def _helper():
    fn = HELPER_FILE[0]
    if fn is None:
        return _at_depth
    if fn not in _HELPERS:
        src = "def _at_depth(d, thunk):\n    if d <= 0:\n        return thunk()\n    return _at_depth(d - 1, thunk)\n"
        ns = {}
        exec(compile(src, fn, "exec"), ns)
        _HELPERS[fn] = ns["_at_depth"]
    return _HELPERS[fn]


_CREATORS = {}
CREATOR_IN_HELPER = [False]


def _here(f, a, k):
    return _frames(), f(*a, **k)


def _creator():
    """The function whose line calls plan.call / gather / unpack / registry.add / registry.source: normally defined
    here, optionally compiled under the helper file's name (the creating line itself lives in the user's helper file)."""
    fn = HELPER_FILE[0]
    if fn is None or not CREATOR_IN_HELPER[0]:
        return _here
    if fn not in _CREATORS:
        src = "def _here(f, a, k):\n    return _frames(), f(*a, **k)\n"
        ns = {"_frames": _frames}
        exec(compile(src, fn, "exec"), ns)
        _CREATORS[fn] = ns["_here"]
    return _CREATORS[fn]


def _plan_builder():
    """A generator that builds plan nodes for whoever resumes it (a plan-building coroutine): its own frame stays the
    same object while the frame that resumes it - and so the rest of the stack - changes from one node to the next."""
    job = yield None
    while True:
        f, a, k = job
        job = yield _creator()(f, a, k)


def _create(d, thunk):
    """Create a symbolic call at helper-nesting depth d (d < 0: no helper frame at all)."""
    if d < 0:
        return thunk()
    return _helper()(d, thunk)


def make_fn(nid, fname):
    def fn(*args, **kwargs):
        return RT[0].call(nid, args, kwargs)

    fn.__name__ = fn.__qualname__ = fname
    fn._nid = nid
    return fn


class Built:
    def __init__(self):
        self.plan = None
        self.registry = None
        self.nodes = {}      # id -> uberjob node
        self.ids = {}        # id(uberjob node) -> world id   (only for nodes we created)
        self.objs = {}       # ('o'|'X', label) -> python object
        self.supplied = {}   # id -> (args objs, kwargs [(name, obj)])
        self.fns = {}        # id -> function
        self.stores = {}     # name -> SimStore
        self.frames = {}     # ('node', id) / ('add', id) -> captured frames
        self.output = None   # materialised output spec


def materialise(spec, b):
    k = spec[0]
    if k == "n":
        return b.nodes[spec[1]]
    if k == "c":
        return spec[1]
    if k == "o":
        key = ("o", spec[1])
        if key not in b.objs:
            b.objs[key] = Opaque(spec[1])
        return b.objs[key]
    if k == "e":
        key = ("e", spec[1])
        if key not in b.objs:
            b.objs[key] = core.EqOpaque(spec[1])
        return b.objs[key]
    if k == "X":
        key = ("X", spec[1])
        if key not in b.objs:
            cls = {"MyList": MyList, "MyTuple": MyTuple, "MyDict": MyDict, "MySet": MySet}[spec[2]]
            kids = [materialise(s, b) for s in spec[3]]
            if cls is MyDict:
                b.objs[key] = MyDict((i, x) for i, x in enumerate(kids))
            else:
                b.objs[key] = cls(kids)
        return b.objs[key]
    if k == "M":
        # ONE list object per label, reused for several calls and mutated in place between them
        key = ("M", spec[1])
        lst = b.objs.setdefault(key, [])
        lst[:] = [materialise(s, b) for s in spec[2]]
        return lst
    if k == "L":
        return [materialise(s, b) for s in spec[1]]
    if k == "T":
        return tuple(materialise(s, b) for s in spec[1])
    if k == "S":
        return {materialise(s, b) for s in spec[1]}
    if k == "D":
        return {materialise(a, b): materialise(v, b) for a, v in spec[1]}
    raise ValueError(spec)


def _register(b, reg, n):
    i = n["id"]
    store = b.stores[n["store"]]
    node = b.nodes[i]

    def thunk():
        fr, _ = _creator()(reg.add, (node, store), {})
        b.frames[("add", i)] = fr

    _create(n.get("add_depth", 0), thunk)


def build(world, with_registry=True, _holder=None):
    """Create Plan (and Registry) objects for one process lifetime."""
    import uberjob

    b = Built()
    if _holder is not None:
        _holder.append(b)
    hf = world.get("helper_file")
    if hf and "<PKG" in hf:
        # user code living next to the installed package (an add-on package, a script in the same directory)
        import os

        pkg = os.path.dirname(os.path.abspath(uberjob.__file__))
        hf = hf.replace("<PKGPARENT>", os.path.dirname(pkg)).replace("<PKG>", pkg)
    HELPER_FILE[0] = hf
    CREATOR_IN_HELPER[0] = bool(world.get("creator_in_helper"))
    plan = b.plan = uberjob.Plan()
    any_reg = any(n.get("store") for n in world["nodes"])
    reg = b.registry = uberjob.Registry() if (any_reg and with_registry) else None
    for name, sd in world.get("stores", {}).items():
        b.stores[name] = STORE_CLASSES[sd.get("cls", "A")](name)
    for name, sd in world.get("stores", {}).items():
        if sd.get("feeds") and sd.get("alias"):
            # one store, two registry entries: the second entry's store object equals the first one's
            b.stores[sd["feeds"]] = STORE_CLASSES[sd.get("cls", "A")](sd["feeds"], key=name)

    def remember(i, node):
        b.nodes[i] = node
        b.ids[id(node)] = i

    gen = [None]

    for n in world["nodes"]:
        i = n["id"]
        kind = n["kind"]
        scope = tuple(core.scope_value(t) for t in n.get("scope", ()))
        depth = n.get("depth", 0)
        with plan.scope(*scope):
            if kind == "call" and n.get("cfn"):
                # a consumer implemented in C that always fails (operator.getitem on a value that is not
                # subscriptable): no Python frame of its own takes part in the failure
                import operator

                args = [materialise(s, b) for s in n.get("args", ())]
                b.supplied[i] = (args, [])
                with plan.scope("cfn", i):
                    remember(i, plan.call(operator.getitem, args[0], 0))
                b.frames[("node", i)] = _frames(0)
                kind = None
            if kind == "call":
                fn = b.fns[i] = make_fn(i, n.get("fname", "f"))
                args = [materialise(s, b) for s in n.get("args", ())]
                kwargs = {nm: materialise(s, b) for nm, s in n.get("kwargs", ())}
                b.supplied[i] = (args, list(kwargs.items()))

                def thunk():
                    fr, node = _creator()(plan.call, (fn, *args), kwargs)
                    b.frames[("node", i)] = fr
                    return node

                if world.get("gen_build") and depth < 1:
                    # created by the generator, which is resumed alternately from two different lines
                    if gen[0] is None:
                        gen[0] = _plan_builder()
                        next(gen[0])
                    if i % 2:
                        fr, node = gen[0].send((plan.call, (fn, *args), kwargs))
                    else:
                        fr, node = _resume_elsewhere(gen[0], (plan.call, (fn, *args), kwargs))
                    b.frames[("node", i)] = fr
                    remember(i, node)
                else:
                    remember(i, _create(depth, thunk))
            elif kind == "lit":
                remember(i, plan.lit(materialise(n["value"], b)))
            elif kind == "gather":
                obj = materialise(n["args"][0], b)

                def thunk():
                    fr, node = _creator()(plan.gather, (obj,), {})
                    b.frames[("node", i)] = fr
                    return node

                remember(i, _create(depth, thunk))
            elif kind == "unpack":
                obj = materialise(n["args"][0], b)

                def thunk():
                    fr, items = _creator()(plan.unpack, (obj, n["n"]), {})
                    b.frames[("node", i)] = fr
                    return items

                items = _create(depth, thunk)
                from uberjob import _builtins as _ub

                t_node = next(
                    p
                    for p in plan.graph.predecessors(items[0])
                    if getattr(p, "fn", None) is _ub.unpack
                )
                remember(i, t_node)
                for idx, item_id in enumerate(n["items"]):
                    remember(item_id, items[idx])
                    b.frames[("node", item_id)] = b.frames[("node", i)]
            elif kind == "item":
                assert i in b.nodes, "item must follow its unpack"
            elif kind == "src":
                if reg is None:
                    raise ValueError("source without registry")
                store = b.stores[n["store"]]

                def thunk():
                    fr, node = _creator()(reg.source, (plan, store), {})
                    b.frames[("node", i)] = fr
                    b.frames[("add", i)] = fr
                    return node

                remember(i, _create(depth, thunk))
            elif kind is not None:
                raise ValueError(kind)
        for d in n.get("deps", ()):
            plan.add_dependency(b.nodes[d], b.nodes[i])
        if n.get("store") and kind != "src" and reg is not None:
            if world.get("defer_adds"):
                continue
            _register(b, reg, n)
    if world.get("defer_adds") and reg is not None:
        # registration order is independent of creation order
        byid = ref.by_id(world)
        order = world.get("add_order") or [n["id"] for n in world["nodes"]]
        for i in order:
            n = byid[i]
            if n.get("store") and n["kind"] != "src":
                _register(b, reg, n)
    for u, v in world.get("late_deps", ()):
        plan.add_dependency(b.nodes[u], b.nodes[v])
    for u, v in world.get("back_edges", ()):
        plan.add_dependency(b.nodes[u], b.nodes[v])
    for u, v, kind in world.get("back_arg_edges", ()):
        from uberjob.graph import KeywordArg, PositionalArg

        tgt = b.nodes[v]
        if kind == "pos":
            npos = sum(1 for _, _, k in plan.graph.in_edges(tgt, keys=True) if type(k) is PositionalArg)
            plan.graph.add_edge(b.nodes[u], tgt, PositionalArg(npos))
        else:
            nkw = sum(1 for _, _, k in plan.graph.in_edges(tgt, keys=True) if type(k) is KeywordArg)
            plan.graph.add_edge(b.nodes[u], tgt, KeywordArg("zz_back", nkw))
    if world.get("output") is not None:
        b.output = materialise(world["output"], b)
    b.complete = True
    return b


def _resume_elsewhere(g, job):
    return g.send(job)


def build_in_bare_thread(world):
    """Build with build() as the bottom frame of a fresh real thread, so that
    creation sites have very short stacks (C19: shallower than the limit).
    No simulation is active while this runs."""
    import _thread
    import time as _t

    import sys as _sys

    holder = []
    died = []
    old_hook = _sys.unraisablehook
    # (build has to be the bottom frame of that thread, so nothing can catch its exceptions for us: the interpreter
    #  reports an exception that ends a _thread thread through sys.unraisablehook)
    _sys.unraisablehook = lambda u: died.append(u.exc_value)
    try:
        _thread.start_new_thread(build, (world, True, holder))
        t0 = _t.time()
        while not (holder and getattr(holder[0], "complete", False)):
            if died or _t.time() - t0 > 20:
                raise RuntimeError(f"bare-thread build failed: {died[0]!r}" if died else "bare-thread build failed")
            _t.sleep(0.0002)
    finally:
        _sys.unraisablehook = old_hook
    return holder[0]


# --------------------------------------------------------------------------
# runtime
# --------------------------------------------------------------------------
def contains_node(obj):
    from uberjob.graph import Node

    t = type(obj)
    if isinstance(obj, Node):
        return True
    if t in (list, tuple, set):
        return any(contains_node(x) for x in obj)
    if t is dict:
        return any(contains_node(k) or contains_node(v) for k, v in obj.items())
    return False


class Rendezvous:
    """W calls that each wait until all W have started (C10: max_workers
    independent ready calls do run in parallel)."""

    def __init__(self, sim, size):
        self.sim = sim
        self.size = size
        self.arrived = 0

    def arrive(self, nid):
        self.arrived += 1
        self.sim.probe("rendezvous-arrivals")
        self.sim.block(lambda: self.arrived >= self.size, None, what=("rendezvous", self.size))


class Runtime:
    """Everything the workload consults during one process lifetime."""

    def __init__(self, sim, world, disk, built, faults=None, cfg=None):
        self.sim = sim
        self.world = world
        self.nodes = ref.by_id(world)
        self.disk = disk
        self.built = built
        self.faults = faults or {}
        self.cfg = cfg or {}
        self.attempts = {}
        self.store_attempts = {}
        self.raised = {}          # call id -> [exception objects]
        self.store_raised = {}    # (name, op) -> [exception objects]
        self.violations = []
        self.weak = {}            # call id -> weakref of result
        self.inflight = 0
        self.inflight_mtime = 0
        self.max_inflight = 0
        self.max_inflight_mtime = 0
        self.cut_at = self.faults.get("cut_at")
        self.cut_mode = self.faults.get("cut_mode", "exc")
        self.cut_index = 0
        self.positions = []
        self.call_starts = 0
        self.interrupt_at = self.faults.get("interrupt_at")
        self.interrupt_at_op = self.faults.get("interrupt_at_op")   # k counted over calls AND store operations
        self.op_starts = 0
        self.fired = {}
        self.check_args = self.cfg.get("check_args", True)
        self.on_call_start = []
        self.barrier = Rendezvous(sim, self.cfg["rendezvous"]) if self.cfg.get("rendezvous") else None
        self.conservation = None  # first work-conservation violation seen at a quiescent instant
        self.seen_values = {}     # call id -> canon of args seen (last attempt)
        self.on_death = None

    # ---- helpers ---------------------------------------------------------
    def _fire(self, kind):
        self.fired[kind] = self.fired.get(kind, 0) + 1

    def violation(self, oracle, msg):
        self.violations.append((oracle, msg))

    def cut_point(self, kind, key):
        self.cut_index += 1
        self.positions.append((kind, key))
        if self.cut_at is not None and self.cut_index == self.cut_at:
            self.sim.log("cut", kind, key, self.cut_mode)
            self._fire("cut-" + kind)
            if self.cut_mode == "death":
                self.disk.frozen = True
                if self.on_death is not None:
                    self.on_death()
                self.sim.crash("death")
            raise CutError(f"cut at {kind} {key}")

    def _enter(self, what):
        self.op_starts += 1
        if self.interrupt_at_op is not None and self.op_starts == self.interrupt_at_op:
            self._fire("interrupt-" + what)
            self.sim.interrupt(self.sim.client, KeyboardInterrupt())
        if what == "mtime":
            self.inflight_mtime += 1
            if self.inflight_mtime > self.max_inflight_mtime:
                self.max_inflight_mtime = self.inflight_mtime
        else:
            self.inflight += 1
            if self.inflight > self.max_inflight:
                self.max_inflight = self.inflight

    def _exit(self, what):
        if what == "mtime":
            self.inflight_mtime -= 1
        else:
            self.inflight -= 1

    def _fault_for_call(self, nid, attempt):
        f = self.faults.get("calls", {}).get(str(nid))
        if f is None:
            return None
        until = f.get("until")
        if until is None or attempt <= until:
            return f
        return None

    def _fault_for_store(self, name, op, attempt):
        for f in self.faults.get("stores", ()):
            if f["store"] == name and f["op"] == op:
                until = f.get("until")
                if until is None or attempt <= until:
                    return f
        return None

    def _make_exc(self, f, what):
        name = f.get("exc", "E1")
        if name in ("CallError", "NodeError"):
            # what a call that runs a nested uberjob.run raises when the inner plan fails
            import uberjob
            from uberjob._errors import NodeError

            inner = uberjob.Plan().call(len, [])
            e = uberjob.CallError(inner) if name == "CallError" else NodeError(inner)
            e.__cause__ = core.E1(f"inner failure of {what}")
            return e
        cls = EXC_TYPES[name]
        e = cls(f"injected {what}")
        return e

    # ---- calls -----------------------------------------------------------
    def call(self, nid, args, kwargs):
        sim = self.sim
        n = self.nodes[nid]
        att = self.attempts[nid] = self.attempts.get(nid, 0) + 1
        sim.log("call-start", nid, att)
        self._enter("call")
        try:
            self.call_starts += 1
            for cb in self.on_call_start:
                cb(nid, att)
            if self.interrupt_at is not None and self.call_starts == self.interrupt_at:
                self._fire("interrupt")
                sim.interrupt(sim.client, KeyboardInterrupt())
            if self.check_args:
                self._check_args(nid, args, kwargs)
            try:
                self.cut_point("call", nid)
                dur = n.get("dur", 0.0)
                if self.barrier is not None and n.get("rendezvous"):
                    self.barrier.arrive(nid)
                sim.sleep(dur, ("call", nid))
                f = self._fault_for_call(nid, att)
                if f is not None:
                    e = self._make_exc(f, f"call {nid} attempt {att}")
                    # (C16 with failing consumers: the harness must not keep the exception - and through its
                    # traceback the call's arguments - alive)
                    self.raised.setdefault(nid, []).append(None if self.cfg.get("no_keep_exc") else e)
                    self._fire("call-raise-" + f.get("exc", "E1"))
                    raise e
                kw = list(kwargs.items())
                dig = core.call_digest(nid, args, kw, self.world.get("_versions", {}).get(nid, 0))
                ret = n.get("ret", "val")
                if ret == "val":
                    out = Val(nid, dig)
                    self.weak[nid] = weakref.ref(out)
                elif ret[0] == "const":
                    out = ret[1]
                elif ret[0] == "tuple":
                    out = tuple(Val(nid, dig, i) for i in range(ret[1]))
                elif ret[0] == "list":
                    out = [Val(nid, dig, i) for i in range(ret[1])]
                else:
                    raise ValueError(ret)
                if n.get("writes"):
                    self._side_write(n["writes"], Val(nid, dig, "side"))
                if n.get("mutates"):
                    # a call that changes the list it was given, in place (after its own value has been fixed)
                    for a in args:
                        if type(a) is list:
                            for j in range(1, len(a)):
                                a[j] = "MUTATED"
            except BaseException as e:
                if isinstance(e, CutError):
                    self.raised.setdefault(nid, []).append(e)
                sim.log("call-end", nid, att, "fail", type(e).__name__)
                del e
                raise
            sim.log("call-end", nid, att, "ok", canon(out))
            return out
        finally:
            self._exit("call")

    def _side_write(self, name, value):
        self.sim.log("side-write", name, canon(value))
        self.disk.put(name, value, self.sim.time())

    def _check_args(self, nid, args, kwargs):
        sup_args, sup_kwargs = self.built.supplied[nid]
        if len(args) != len(sup_args):
            self.violation("args-shape", f"call {nid}: {len(args)} positional, expected {len(sup_args)}")
            return
        for i, (a, s) in enumerate(zip(args, sup_args)):
            self._check_one(nid, f"arg{i}", a, s)
        names = list(kwargs.keys())
        exp_names = [k for k, _ in sup_kwargs]
        if names != exp_names:
            self.violation("kwargs-order", f"call {nid}: keyword names {names}, expected {exp_names}")
            return
        for k, s in sup_kwargs:
            self._check_one(nid, "kw:" + k, kwargs[k], s)

    def _check_one(self, nid, where, actual, supplied):
        from uberjob.graph import Node

        if isinstance(supplied, Node):
            return  # value checked against the reference by digest
        if contains_node(supplied):
            if type(actual) is not type(supplied):
                self.violation(
                    "arg-type",
                    f"call {nid} {where}: got {type(actual).__name__}, expected {type(supplied).__name__}",
                )
            return
        if actual is not supplied:
            self.violation("arg-identity", f"call {nid} {where}: non-symbolic argument is not the supplied object")

    def _file_mtime(self, name, t, how="file"):
        """The bundled file-store code paths: a real file whose mtime is the instant, reported by
        uberjob.stores.get_modified_time or by one of the bundled store classes built on it."""
        import os
        import pathlib

        import uberjob.stores as US

        d = self.cfg.get("scratch")
        path = os.path.join(d, name)
        if not os.path.exists(path):
            with _fs.real_open(path, "wb"):
                pass
        os.utime(path, ns=(int(round(t * 1e9)), int(round(t * 1e9))))
        kind = how.split(":", 1)[1] if ":" in how else "helper"
        if kind.endswith("+pathlib"):
            kind, path = kind[:-8], pathlib.Path(path)
        if kind == "helper":
            return US.get_modified_time(path)
        if kind == "path-source":
            return US.PathSource(path).get_modified_time()
        if kind == "path-source-optional":
            return US.PathSource(path, required=False).get_modified_time()
        cls = {"pickle": US.PickleFileStore, "json": US.JsonFileStore, "text": US.TextFileStore,
               "binary": US.BinaryFileStore, "touch": US.TouchFileStore}[kind]
        return cls(path).get_modified_time()

    # ---- stores ----------------------------------------------------------
    def _sdur(self, name, op):
        return self.world["stores"].get(name, {}).get("dur", {}).get(op, 0.0)

    def store_read(self, name):
        sim = self.sim
        key = (name, "read")
        att = self.store_attempts[key] = self.store_attempts.get(key, 0) + 1
        sim.log("store-start", "read", name, att)
        self._enter("store")
        try:
            try:
                self.cut_point("read", name)
                sim.sleep(self._sdur(name, "read"), ("read", name))
                f = self._fault_for_store(name, "read", att)
                if f is not None:
                    e = self._make_exc(f, f"read {name}")
                    self.store_raised.setdefault(key, []).append(e)
                    self._fire("read-raise")
                    raise e
                if self.disk.mtime(name) is None:
                    e = NothingStored(name)
                    self.store_raised.setdefault(key, []).append(e)
                    raise e
                v = self.disk.value(name)
                out = ref.norm(self.world, name, v)
            except BaseException as e:
                if isinstance(e, CutError):
                    self.store_raised.setdefault(key, []).append(e)
                sim.log("store-end", "read", name, att, "fail", type(e).__name__)
                raise
            sim.log("store-end", "read", name, att, "ok", canon(out))
            return out
        finally:
            self._exit("store")

    def store_write(self, name, value):
        sim = self.sim
        key = (name, "write")
        att = self.store_attempts[key] = self.store_attempts.get(key, 0) + 1
        sim.log("store-start", "write", name, att)
        self._enter("store")
        try:
            try:
                self.cut_point("write-before", name)
                f = self._fault_for_store(name, "write", att)
                if f is not None and f.get("when", "before") == "before":
                    e = self._make_exc(f, f"write {name}")
                    self.store_raised.setdefault(key, []).append(e)
                    self._fire("write-raise-before")
                    raise e
                sim.sleep(self._sdur(name, "write"), ("write", name))
                if type(value) is Norm and self.world["stores"][name]["flavour"] == "norm":
                    pass
                t = self.disk.put(name, value, sim.time())
                sim.log("store-effect", "write", name, canon(value), t)
                fed = self.world["stores"][name].get("feeds")
                if fed:
                    owner = [m["id"] for m in self.world["nodes"] if m.get("store") == name and m["kind"] != "src"][0]
                    fv = ref.fed_value(owner, value)
                    if self.world["stores"][name].get("alias"):
                        self.sim.log("side-write", fed, canon(fv))
                        self.disk.put_same_instant(fed, fv, t)
                    else:
                        self._side_write(fed, fv)
                self.cut_point("write-after", name)
                if f is not None and f.get("when") == "after":
                    e = self._make_exc(f, f"write {name} (after effect)")
                    self.store_raised.setdefault(key, []).append(e)
                    self._fire("write-raise-after")
                    raise e
            except BaseException as e:
                if isinstance(e, CutError):
                    self.store_raised.setdefault(key, []).append(e)
                sim.log("store-end", "write", name, att, "fail", type(e).__name__)
                raise
            sim.log("store-end", "write", name, att, "ok")
            return None
        finally:
            self._exit("store")

    def store_mtime(self, name):
        sim = self.sim
        key = (name, "mtime")
        att = self.store_attempts[key] = self.store_attempts.get(key, 0) + 1
        sim.log("store-start", "mtime", name, att)
        self._enter("mtime")
        try:
            try:
                self.cut_point("mtime", name)
                sim.sleep(self._sdur(name, "mtime"), ("mtime", name))
                f = self._fault_for_store(name, "mtime", att)
                if f is not None:
                    e = self._make_exc(f, f"mtime {name}")
                    self.store_raised.setdefault(key, []).append(e)
                    self._fire("mtime-raise")
                    raise e
                t = self.disk.mtime(name)
                how = self.cfg.get("renders", {}).get(name, self.world["stores"][name].get("render"))
                if how is None and name in getattr(self.disk, "file_names", ()):
                    # a file-backed store: the bundled store class answers itself
                    out = self.disk._store(name).get_modified_time()
                elif t is None:
                    out = None
                elif how == "file" or (isinstance(how, str) and how.startswith("file:")):
                    out = self._file_mtime(name, t, how)
                elif isinstance(how, (list, tuple)) and how[0] in ("mts", "lit"):
                    # the bundled constant sources: they hand back the datetime they were given
                    import uberjob.stores as US

                    given = render_instant(t, how[1])
                    src = US.ModifiedTimeSource(given) if how[0] == "mts" else US.LiteralSource(name, given)
                    out = src.get_modified_time()
                else:
                    out = render_instant(t, how)
                if out is not None and out.tzinfo is None and out.fold:
                    sim.probe("naive-modified-time-in-repeated-hour")
                if how == "naive-gap" and out is not None and t is not None and out.replace(fold=0) != render_instant(t, "naive-local").replace(fold=0):
                    sim.probe("naive-modified-time-in-skipped-hour")
            except BaseException as e:
                if isinstance(e, CutError):
                    self.store_raised.setdefault(key, []).append(e)
                sim.log("store-end", "mtime", name, att, "fail", type(e).__name__)
                raise
            sim.log("store-end", "mtime", name, att, "ok", t)
            return out
        finally:
            self._exit("mtime")

"""In-memory value stores on the public ValueStore ABC, plus the 'disk' that
survives process lifetimes (DESIGN 4.1)."""
import datetime as dt

from uberjob._value_store import ValueStore

RT = [None]  # current Runtime (set by the machine for each process lifetime)


class Disk:
    """Durable state: store name -> (raw value, instant). Instants are
    pairwise distinct and strictly increasing with every write."""

    def __init__(self):
        self.data = {}
        self.last = 0.0
        self.now = 0.0  # virtual seconds carried from one Sim to the next
        self.frozen = False
        self.writes = 0

    def put(self, name, value, t):
        if self.frozen:
            return
        t = max(t, self.last + 1.0)
        self.last = t
        self.data[name] = (value, t)
        self.writes += 1
        return t

    def delete(self, name):
        self.data.pop(name, None)

    def value(self, name):
        return self.data[name][0]

    def mtime(self, name):
        e = self.data.get(name)
        return None if e is None else e[1]

    def mtimes(self):
        return {k: v[1] for k, v in self.data.items()}

    def snapshot(self):
        return (dict(self.data), self.last, self.now)

    def restore(self, snap):
        self.data = dict(snap[0])
        self.last = snap[1]
        self.now = snap[2]


class NothingStored(Exception):
    pass


def render_instant(t, how):
    """Render instant t (POSIX seconds) as a datetime in form `how`."""
    if how is None or how == "naive-utc":
        return dt.datetime.fromtimestamp(t, dt.timezone.utc).replace(tzinfo=None)
    if how == "naive-local":
        return dt.datetime.fromtimestamp(t)  # local zone, fold preserved
    if how == "aware-utc":
        return dt.datetime.fromtimestamp(t, dt.timezone.utc)
    if how == "aware-local":
        return dt.datetime.fromtimestamp(t).astimezone()
    if isinstance(how, (list, tuple)) and how[0] == "offset":
        return dt.datetime.fromtimestamp(t, dt.timezone(dt.timedelta(minutes=how[1])))
    if isinstance(how, (list, tuple)) and how[0] == "zone":
        import zoneinfo

        return dt.datetime.fromtimestamp(t, zoneinfo.ZoneInfo(how[1]))
    raise ValueError(how)


class SimStore(ValueStore):
    __slots__ = ("name",)

    def __init__(self, name):
        self.name = name

    def read(self):
        return RT[0].store_read(self.name)

    def write(self, value):
        return RT[0].store_write(self.name, value)

    def get_modified_time(self):
        return RT[0].store_mtime(self.name)

    def __repr__(self):
        return f"{type(self).__name__}({self.name})"


class SimStoreB(SimStore):
    __slots__ = ()


STORE_CLASSES = {"A": SimStore, "B": SimStoreB}

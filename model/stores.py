"""In-memory value stores on the public ValueStore ABC, plus the 'disk' that
survives process lifetimes (DESIGN 4.1)."""
import datetime as dt

from uberjob._value_store import ValueStore

from simkit import fs

RT = [None]  # current Runtime (set by the machine for each process lifetime)


class Disk:
    """Durable state: store name -> (raw value, instant). Instants are
    pairwise distinct and strictly increasing with every write."""

    def __init__(self):
        self.data = {}
        self.last = 0.0
        self.now = 0.0  # virtual seconds carried from one Sim to the next
        self.frozen = False
        self.writes = 0
        self.tickv = 1.0  # smallest distance between two modified times (a per-history parameter: 20 us ... 1 s)

    def put(self, name, value, t):
        if self.frozen:
            return
        # (instants sit on the microsecond grid: datetimes and file times render them without rounding ambiguity)
        t = round(max(t, self.last + self.tickv), 6)
        self.last = t
        self.data[name] = (value, t)
        self.writes += 1
        return t

    def put_same_instant(self, name, value, t):
        """A second view of a store that was just written at instant t (the `registry.source(plan, registry[x])`
        idiom: one store, two registry entries, hence one modified time)."""
        if self.frozen:
            return
        self.data[name] = (value, t)
        return t

    def delete(self, name):
        self.data.pop(name, None)

    def set_all_mtimes(self, t):
        """Every stored value gets the modified time t (files extracted from an archive that zeroes timestamps,
        `touch -d`): contents unchanged."""
        for name in list(self.data):
            self.data[name] = (self.data[name][0], t)

    def value(self, name):
        return self.data[name][0]

    def mtime(self, name):
        e = self.data.get(name)
        return None if e is None else e[1]

    def mtimes(self):
        return {k: v[1] for k, v in self.data.items()}

    def snapshot(self):
        return (dict(self.data), self.last, self.now)

    def restore(self, snap):
        self.data = dict(snap[0])
        self.last = snap[1]
        self.now = snap[2]


class NothingStored(Exception):
    pass


def render_instant(t, how):
    """Render instant t (POSIX seconds) as a datetime in form `how`."""
    if how is None or how == "naive-utc":
        return dt.datetime.fromtimestamp(t, dt.timezone.utc).replace(tzinfo=None)
    if how == "naive-local":
        return dt.datetime.fromtimestamp(t)  # local zone, fold preserved
    if how == "naive-gap":
        # a naive local time that does not exist on the wall clock (inside a spring-forward gap) but - by the rules
        # every datetime operation follows (PEP 495: fold=0 reads it with the offset before the transition, fold=1
        # with the offset after) - denotes exactly the instant t; where t has no such spelling: the ordinary one
        d = dt.datetime.fromtimestamp(t)
        utc = dt.datetime.fromtimestamp(t, dt.timezone.utc).replace(tzinfo=None)
        for probe in (-7200, 7200, -3600, 3600, -1800, 1800):
            off = dt.datetime.fromtimestamp(t + probe).astimezone().utcoffset()
            for fold in (0, 1):
                w = (utc + off).replace(fold=fold)
                if w.replace(fold=0) != d.replace(fold=0) and w.timestamp() == t:
                    return w
        return d
    if how == "aware-utc":
        return dt.datetime.fromtimestamp(t, dt.timezone.utc)
    if how == "aware-local":
        return dt.datetime.fromtimestamp(t).astimezone()
    if isinstance(how, (list, tuple)) and how[0] == "offset":
        return dt.datetime.fromtimestamp(t, dt.timezone(dt.timedelta(minutes=how[1])))
    if isinstance(how, (list, tuple)) and how[0] == "zone":
        import zoneinfo

        return dt.datetime.fromtimestamp(t, zoneinfo.ZoneInfo(how[1]))
    raise ValueError(how)


class SimStore(ValueStore):
    """`name` identifies the registry entry in the event log; `key` is the identity of the stored thing: two entries
    for one store (`registry.source(plan, registry[x])`) have different names, one key - and compare equal, as
    value stores implemented as value objects (dataclasses) do."""

    __slots__ = ("name", "key")

    def __init__(self, name, key=None):
        self.name = name
        self.key = name if key is None else key

    def __eq__(self, other):
        return type(other) is type(self) and other.key == self.key

    def __hash__(self):
        return hash((type(self).__name__, self.key))

    def read(self):
        return RT[0].store_read(self.name)

    def write(self, value):
        return RT[0].store_write(self.name, value)

    def get_modified_time(self):
        return RT[0].store_mtime(self.name)

    def __repr__(self):
        return f"{type(self).__name__}({self.name})"


class SimStoreB(SimStore):
    __slots__ = ()


class SimStoreLen(SimStore):
    """A container-like store: len(store) is the number of stored items, so the object is falsy while nothing (or an
    empty payload) is stored - truthiness of a ValueStore carries no meaning for uberjob."""

    __slots__ = ()

    def __len__(self):
        rt = RT[0]
        if rt is None or rt.disk.mtime(self.name) is None:
            return 0
        v = rt.disk.value(self.name)
        try:
            return len(v)
        except TypeError:
            return 0 if v is None else 1


STORE_CLASSES = {"A": SimStore, "B": SimStoreB, "L": SimStoreLen}


class FileDisk(Disk):
    """Durable state where stores flagged 'file' live in real files written by
    uberjob's own PickleFileStore (through the syscall fault layer), with
    modified times on the virtual clock.  Everything else stays in memory."""

    def __init__(self, scratch, file_names, touch=(), siblings=False, symlinks=(), loops=()):
        super().__init__()
        self.scratch = scratch
        self.file_names = set(file_names)
        self.symlinks = set(symlinks)  # store paths that start life as (dangling) symbolic links to another place
        self.touch = set(touch)        # stores that are TouchFileStore files (they hold None)
        self.siblings = siblings       # pathlib paths, pairs of stores sharing a stem (x.pkl / x.dat)
        import os

        for name in sorted(self.symlinks & self.file_names):
            p = str(self.path(name))
            # dangling, or pointing at itself (stat fails with ELOOP, not ENOENT): either way nothing is stored there
            fs.REAL["symlink"](p if name in loops else os.path.join(scratch, "elsewhere-" + os.path.basename(p)), p)

    def path(self, name):
        import os
        import pathlib

        if self.siblings:
            k = sorted(self.file_names).index(name)
            return pathlib.Path(self.scratch) / (f"pair{k // 2}" + (".pkl" if k % 2 else ".dat"))
        return os.path.join(self.scratch, name + ".pkl")

    def _store(self, name):
        from uberjob.stores import PickleFileStore, TouchFileStore

        return (TouchFileStore if name in self.touch else PickleFileStore)(self.path(name))

    def tick(self, t):
        t = round(max(t, self.last + self.tickv), 6)
        self.last = t
        return t

    def put(self, name, value, t):
        if name not in self.file_names:
            return super().put(name, value, t)
        if self.frozen:
            return
        self._now = t
        self._store(name).write(value)   # real staged write of a bundled store; mtime stamped at close by the fs layer
        self.writes += 1
        return self.mtime(name)

    def delete(self, name):
        import os

        if name in self.file_names:
            try:
                fs.REAL["remove"](self.path(name))
            except FileNotFoundError:
                pass
        else:
            super().delete(name)

    def value(self, name):
        if name not in self.file_names:
            return super().value(name)
        return self._store(name).read()

    def set_all_mtimes(self, t):
        import os

        super().set_all_mtimes(t)
        for name in sorted(self.file_names):
            p = str(self.path(name))
            if os.path.exists(p):
                os.utime(p, ns=(int(round(t * 1e9)), int(round(t * 1e9))))

    def mtime(self, name):
        import os

        if name not in self.file_names:
            return super().mtime(name)
        try:
            return os.stat(self.path(name)).st_mtime_ns / 1e9
        except OSError:
            return None

    def mtimes(self):
        out = super().mtimes()
        for n in self.file_names:
            t = self.mtime(n)
            if t is not None:
                out[n] = t
        return out

    def snapshot(self):
        import os

        files = {}
        for fn in os.listdir(self.scratch):
            p = os.path.join(self.scratch, fn)
            if os.path.islink(p):
                files[fn] = ("->", os.readlink(p))
                continue
            with open(p, "rb") as f:
                files[fn] = (f.read(), os.stat(p).st_mtime_ns)
        return (dict(self.data), self.last, self.now, files)

    def restore(self, snap):
        import os

        self.data = dict(snap[0])
        self.last = snap[1]
        self.now = snap[2]
        for fn in os.listdir(self.scratch):
            fs.REAL["remove"](os.path.join(self.scratch, fn))
        for fn, (b, ns) in snap[3].items():
            p = os.path.join(self.scratch, fn)
            if b == "->":
                fs.REAL["symlink"](ns, p)
                continue
            with fs.real_open(p, "wb") as f:    # the harness's own writes bypass the fault layer
                f.write(b)
            os.utime(p, ns=(ns, ns))

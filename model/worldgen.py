"""Seeded generators for world descriptions, run configurations, fault plans
and schedule parameters (DESIGN 4.1, 3).  Everything is JSON-able."""
import random

from model import ref

SCOPE_POOLS = [
    [],
    ["a"],
    ["b"],
    ["a", 1],
    [1],
    [2, "x"],
    [None],
    [["enum", "RED"]],
    [["enum", "GREEN"]],
    [["shape", "ROUND"]],
    [["tok", 1]],
    [["tok", 2]],
    [["tup", [1, "z"]]],
    ["a", ["enum", "BLUE"]],
    [1.5],
    [["bool", 1]],
    [["tup", ["shard", None]]],
    [["tup", ["shard", 3]]],
    [["dtn", 5]],
    [["dta", 7]],
    [["cplx", 1]],
    [["cplx", 2]],
]
PLAIN_SCOPES = [[], ["a"], ["b"], ["a", 1], [1], [2, "x"], ["c", "d"]]

DEFAULTS = dict(
    n_min=3,
    n_max=12,
    registry=False,
    p_kw=0.3,
    p_nested=0.25,
    p_dep=0.25,
    p_lit=0.1,
    p_unpack=0.08,
    p_gather=0.06,
    p_const=0.1,
    p_opaque=0.15,
    p_late_dep=0.15,
    p_parallel=0.2,
    durs=(0.0, 0.0, 0.0, 1.0, 2.5, 10.0),
    scopes="any",
    p_stored=0.35,
    p_src=0.2,
    p_depsrc=0.12,
    p_fed=0.12,
    p_defer_adds=0.5,
    p_norm=0.4,
    max_fan_in=4,
    depth_max=0,
    out_modes=("none", "node", "node", "struct"),
)


class Gen:
    def __init__(self, rng, **kw):
        self.rng = rng
        self.p = dict(DEFAULTS)
        self.p.update(kw)
        self.nodes = []
        self.stores = {}
        self.label = 0
        self.usable = []  # ids that may be referenced as arguments
        self.writers = set()  # side-effect writers: only their source node depends on them

    # ---- small helpers ---------------------------------------------------
    def coin(self, p):
        return self.rng.random() < p

    def new_id(self):
        return len(self.nodes)

    def scope(self):
        pool = SCOPE_POOLS if self.p["scopes"] == "any" else PLAIN_SCOPES
        return list(self.rng.choice(pool))

    def new_label(self):
        self.label += 1
        return f"o{self.label}"

    def const(self):
        return self.rng.choice([0, 1, 2, "k", "m", None, 3.5, True, 0.0, -0.0, 1.0])

    def leaf(self, allow_node=True, hashable=False):
        r = self.rng.random()
        if allow_node and self.usable and r < 0.6:
            return ["n", self.rng.choice(self.usable)]
        if r < 0.85:
            return ["c", self.const()]
        if self.coin(0.5) or hashable:
            return ["o", self.new_label()]
        if self.coin(0.4):
            return ["e", self.new_label()]   # equal-but-distinct objects
        cls = self.rng.choice(["MyList", "MyTuple", "MyDict"])
        kids = [self.leaf(allow_node=True, hashable=True) for _ in range(self.rng.randrange(0, 3))]
        return ["X", self.new_label(), cls, kids]

    def nested(self, depth=0):
        k = self.rng.choice(["L", "T", "S", "D", "L", "T"])
        n = self.rng.randrange(0, 4)
        if k in ("L", "T"):
            items = []
            for _ in range(n):
                if depth < 2 and self.coin(0.25):
                    items.append(self.nested(depth + 1))
                else:
                    items.append(self.leaf())
            return [k, items]
        if k == "S":
            return ["S", [self.hashable_leaf() for _ in range(n)]]
        pairs = []
        seen = {}
        for _ in range(n):
            key = self.hashable_leaf()
            bk = _build_key(key)
            if bk in seen:
                continue  # a dict display keeps one entry per build-time key
            seen[bk] = True
            val = self.nested(depth + 1) if depth < 2 and self.coin(0.2) else self.leaf()
            pairs.append([key, val])
        return ["D", pairs]

    def hashable_leaf(self):
        r = self.rng.random()
        if self.usable_hashable and r < 0.6:
            return ["n", self.rng.choice(self.usable_hashable)]
        if r < 0.9:
            return ["c", self.rng.choice([0, 1, "k", None])]
        return ["T", [["c", 1], ["n", self.rng.choice(self.usable_hashable)]]] if self.usable_hashable else ["c", 7]

    @property
    def usable_hashable(self):
        # nodes whose value is hashable (Val / const / tuple of Val / Norm)
        out = []
        for i in self.usable:
            n = self.nodes[i]
            if n["kind"] in ("call", "item", "src") and n.get("ret", "val")[0] != "list":
                out.append(i)
        return out

    def arg_spec(self):
        if self.usable and self.coin(self.p.get("p_shared_list", 0.0)):
            # the running-totals idiom: the same list object, grown / changed between uses (always holds a node)
            items = [["n", self.rng.choice(self.usable)]] + [self.leaf() for _ in range(self.rng.randrange(0, 3))]
            self.rng.shuffle(items)
            return ["M", self.rng.choice(["acc1", "acc2"]), items]
        if self.coin(self.p["p_nested"]):
            return self.nested()
        return self.leaf()

    # ---- node kinds ------------------------------------------------------
    def add_call(self, **extra):
        p = self.p
        i = self.new_id()
        n_args = self.rng.randrange(0, min(p["max_fan_in"], 1 + len(self.usable)) + 1)
        args = [self.arg_spec() for _ in range(n_args)]
        kwargs = []
        if self.coin(p["p_kw"]):
            names = self.rng.sample(["z", "a", "m", "k", "b"], self.rng.randrange(1, 4))
            kwargs = [[nm, self.arg_spec()] for nm in names]
        # (a shared list is changed BETWEEN calls: within one call's arguments each list object appears once)
        used = set()
        args = [_once_per_call(a, used) for a in args]
        kwargs = [[nm, _once_per_call(a, used)] for nm, a in kwargs]
        ret = "val"
        if self.coin(p["p_const"]):
            ret = ["const", self.rng.choice([0, 1, "k"])]
        node = dict(
            id=i, kind="call", args=args, kwargs=kwargs, deps=self.pick_deps(i),
            scope=self.scope(), dur=self.rng.choice(p["durs"]), ret=ret,
            fname=self.rng.choice(["f", "g", "h"]),
            depth=self.rng.randrange(0, p["depth_max"] + 1),
        )
        node.update(extra)
        self.nodes.append(node)
        self.usable.append(i)
        return node

    def pick_deps(self, i):
        deps = []
        if self.nodes and self.coin(self.p["p_dep"]):
            k = self.rng.randrange(1, 3)
            pool = [j for j in range(len(self.nodes)) if j not in self.writers]
            deps = self.rng.sample(pool, min(k, len(pool)))
        return sorted(set(deps))

    def add_lit(self):
        i = self.new_id()
        val = self.nested() if self.coin(0.3) else self.leaf(allow_node=False)
        if ref.has_node(val):
            val = ["c", self.const()]
        node = dict(id=i, kind="lit", value=val, deps=self.pick_deps(i), scope=self.scope())
        if self.p["registry"] and self.coin(self.p.get("p_store_other", 0.0)):
            # Registry.add accepts any node: a literal with a value store (its value is made of plain constants, so
            # that what a later process finds in the store can be compared by value)
            node["value"] = self.rng.choice([["c", self.const()], ["L", [["c", self.const()], ["c", self.const()]]],
                                             ["T", [["c", 1], ["L", []]]], ["D", [[["c", "k"], ["c", 2]]]]])
            node["store"] = self.new_store()
            node["add_depth"] = 0
        self.nodes.append(node)
        self.usable.append(i)
        return node

    def add_lit_chain(self):
        """call A -> literal -> literal -> ... -> consumer: ordering routed only through literal nodes, where
        some of the literals are also arguments of other calls (so that they are not bypassed as trivial)."""
        calls = [n["id"] for n in self.nodes if n["kind"] == "call"]
        if not calls:
            return
        prev = self.rng.choice(calls)
        for _ in range(self.rng.randrange(1, 4)):
            i = self.new_id()
            self.nodes.append(dict(id=i, kind="lit", value=["c", self.const()], deps=[prev], scope=self.scope()))
            self.usable.append(i)
            if self.coin(0.6):
                side = self.add_call()
                side["args"] = [["n", i]] + side["args"][:1]
            prev = i
        last = self.add_call()
        if self.coin(0.5):
            last["args"] = [["n", prev]] + last["args"][:1]
        else:
            last["deps"] = sorted(set(last["deps"]) | {prev})
        last["dur"] = 0.0

    def add_gather(self):
        i = self.new_id()
        node = dict(id=i, kind="gather", args=[self.nested()], deps=[], scope=self.scope(),
                    depth=self.rng.randrange(0, self.p["depth_max"] + 1))
        if not ref.has_node(node["args"][0]):
            # plan.gather of a node-free structure yields a literal
            node["kind"] = "lit"
            node["value"] = node.pop("args")[0]
        elif self.p["registry"] and self.coin(self.p.get("p_store_other", 0.0)) and not _has_opaque(node["args"][0]):
            node["store"] = self.new_store()      # a gather result with a value store
            node["add_depth"] = 0
        self.nodes.append(node)
        self.usable.append(i)
        return node

    def add_unpack(self):
        n = self.rng.randrange(1, 4)
        prod = self.add_call(ret=[self.rng.choice(["tuple", "list"]), n])
        self.usable.remove(prod["id"])  # only consumed through the unpack here
        i = self.new_id()
        items = [i + 1 + k for k in range(n)]
        node = dict(id=i, kind="unpack", args=[["n", prod["id"]]], n=n, items=items,
                    deps=[], scope=self.scope(), depth=self.rng.randrange(0, self.p["depth_max"] + 1))
        self.nodes.append(node)
        for k, it in enumerate(items):
            self.nodes.append(dict(id=it, kind="item", of=i, index=k, deps=[], scope=node["scope"]))
            self.usable.append(it)
        return node

    # ---- registry --------------------------------------------------------
    def new_store(self):
        name = f"s{len(self.stores)}"
        self.stores[name] = dict(
            flavour="norm" if self.coin(self.p["p_norm"]) else "plain",
            cls=self.rng.choice(["A", "A", "B", "L"]),
        )
        return name

    def add_src(self, deps=()):
        i = self.new_id()
        name = self.new_store()
        node = dict(id=i, kind="src", store=name, deps=sorted(deps), scope=self.scope(),
                    depth=self.rng.randrange(0, self.p["depth_max"] + 1))
        self.nodes.append(node)
        self.usable.append(i)
        return node

    def add_src_dup(self):
        """A second source node on the very same store object as an existing pure source (two helpers that each
        call registry.source(plan, store))."""
        cands = [n for n in self.nodes if n["kind"] == "src" and not n.get("deps")
                 and not any(sd.get("feeds") == n["store"] for sd in self.stores.values())]
        if not cands:
            return None
        i = self.new_id()
        node = dict(id=i, kind="src", store=self.rng.choice(cands)["store"], deps=[], scope=self.scope(),
                    depth=self.rng.randrange(0, self.p["depth_max"] + 1))
        self.nodes.append(node)
        self.usable.append(i)
        return node

    def add_depsrc(self):
        w = self.add_call()
        w["ret"] = "val"
        extra = []
        if self.coin(0.5):
            # further calls that must run before the source is read (e.g. a second step of the side effect)
            pool = [n["id"] for n in self.nodes if n["kind"] == "call" and n["id"] not in self.writers
                    and n["id"] != w["id"]]
            if pool:
                extra = self.rng.sample(pool, min(len(pool), self.rng.randrange(1, 3)))
        # (the writer itself also runs after them, so that what it writes is newer than anything the source depends on)
        w["deps"] = sorted(set(w["deps"]) | set(extra))
        self.writers.add(w["id"])
        src_deps = [w["id"]] + extra
        shape = self.rng.random()
        if shape < 0.2:
            # writer -> (private) literal -> source: the ordering is routed through a literal node
            i = self.new_id()
            self.nodes.append(dict(id=i, kind="lit", value=["c", self.const()], deps=sorted(src_deps), scope=self.scope()))
            self.writers.add(i)   # private: nobody else may depend on it (that would force the writer to run)
            src_deps = [i] + ([w["id"]] if self.coin(0.3) else [])
        elif shape < 0.45:
            # a chain of dependent sources: this one also waits for an earlier dependent source
            earlier = [n["id"] for n in self.nodes if n["kind"] == "src" and n.get("deps")]
            if earlier:
                a = self.rng.choice(earlier)
                src_deps = src_deps + [a]
                w["deps"] = sorted(set(w["deps"]) | {a})   # (written after - hence newer than - the earlier source)
        name_holder = self.add_src(deps=src_deps)
        w["writes"] = name_holder["store"]
        # the writer is consumed only through its store
        if w["id"] in self.usable:
            self.usable.remove(w["id"])
        return name_holder

    def add_fed_source(self):
        """A source whose data is produced by the write of a stored node
        (the source depends on that node)."""
        cands = [n for n in self.nodes if n["kind"] == "call" and n.get("store")
                 and not self.stores[n["store"]].get("feeds") and not self.stores[n["store"]].get("shared")]
        if not cands:
            return None
        y = self.rng.choice(cands)
        if self.coin(self.p.get("p_fed_same", 0.0)):
            # `registry.source(plan, registry[y])`: the very same store object behind a second registry entry,
            # optionally with a post-processing step between the write and the source
            deps = [y["id"]]
            if self.coin(0.5):
                fix = self.add_call()
                fix["args"], fix["kwargs"], fix["deps"], fix["ret"] = [], [], [y["id"]], "val"
                self.writers.add(fix["id"])          # (nobody else depends on it)
                if fix["id"] in self.usable:
                    self.usable.remove(fix["id"])
                deps.append(fix["id"])
            i = self.new_id()
            z = dict(id=i, kind="src", store=y["store"], deps=sorted(deps), scope=self.scope(),
                     depth=self.rng.randrange(0, self.p["depth_max"] + 1))
            self.nodes.append(z)
            self.usable.append(i)
            self.stores[y["store"]]["shared"] = True    # (no further entry on this store)
            return z
        z = self.add_src(deps=[y["id"]])
        self.stores[y["store"]]["feeds"] = z["store"]
        # alias: one store registered twice (`registry.source(plan, registry[y])`): both entries report one modified time
        self.stores[y["store"]]["alias"] = self.coin(0.5)
        return z

    # ---- whole world -----------------------------------------------------
    def world(self):
        p = self.p
        target = self.rng.randrange(p["n_min"], p["n_max"] + 1)
        reg = p["registry"]
        if reg:
            # start with at least one source so that histories have inputs
            for _ in range(self.rng.randrange(1, 3)):
                self.add_src()
        while len(self.nodes) < target:
            r = self.rng.random()
            if reg and r < p["p_src"] * 0.3:
                self.add_src()
            elif reg and r < p["p_src"] * 0.3 + p["p_depsrc"]:
                self.add_depsrc()
            elif reg and self.coin(p["p_fed"]) and self.add_fed_source() is not None:
                pass
            elif reg and self.coin(p.get("p_dup_src", 0.0)) and self.add_src_dup() is not None:
                pass
            elif r < 0.5 * p["p_lit"] + (p["p_src"] if reg else 0):
                self.add_lit()
            elif self.coin(p.get("p_lit_chain", 0.0)):
                self.add_lit_chain()
            elif self.coin(p["p_unpack"]):
                self.add_unpack()
            elif self.coin(p["p_gather"]) and self.usable:
                self.add_gather()
            else:
                n = self.add_call()
                if reg and self.coin(p["p_stored"]) and n["ret"] == "val":
                    n["store"] = self.new_store()
                    n["add_depth"] = self.rng.randrange(0, p["depth_max"] + 1)
        world = dict(nodes=self.nodes, stores=self.stores, late_deps=[], output=None)
        if reg and self.coin(p["p_defer_adds"]):
            world["defer_adds"] = True
            order = [n["id"] for n in self.nodes if n.get("store") and n["kind"] != "src"]
            self.rng.shuffle(order)
            world["add_order"] = order
        self.add_late_deps(world)
        self.add_parallel_edges(world)
        world["output"] = self.output()
        return world

    def add_late_deps(self, world):
        if not self.coin(self.p["p_late_dep"]) or len(self.nodes) < 3:
            return
        ds = ref.deps_star(world)
        for _ in range(self.rng.randrange(1, 3)):
            u = self.rng.randrange(1, len(self.nodes))
            v = self.rng.randrange(0, u)
            # u -> v (later-created node must run before an earlier one);
            # legal iff v is not already upstream of u
            if v in ds[u] or u == v:
                continue
            if self.nodes[v]["kind"] in ("item", "src") or self.nodes[u]["kind"] == "item" or u in self.writers:
                continue  # (a dependency onto a source whose store nobody writes is not the documented idiom)
            if v in self.writers:
                # (nor onto a side-effect writer or onto the private literal in front of its source: the writer would not
                #  be ordered after u, so what it writes need not be newer than everything its source depends on)
                continue
            world["late_deps"].append([u, v])
            ds = ref.deps_star(world)

    def add_parallel_edges(self, world):
        # a plain dependency duplicating an existing argument edge, or doubled
        for n in self.nodes:
            if n["kind"] in ("call",) and self.coin(self.p["p_parallel"]):
                ap = ref.arg_preds(n)
                if ap:
                    d = self.rng.choice(ap)
                    n["deps"] = sorted(set(n["deps"]) | {d})
                    if self.coin(0.3):
                        n.setdefault("dup_deps", []).append(d)

    def output(self):
        mode = self.rng.choice(self.p["out_modes"])
        if mode == "none" or not self.usable:
            return None
        if mode == "node":
            return ["n", self.rng.choice(self.usable)]
        s = self.nested()
        return s


def _has_opaque(spec):
    k = spec[0]
    if k in ("o", "X", "e", "M"):
        return True
    if k in ("L", "T", "S"):
        return any(_has_opaque(x) for x in spec[1])
    if k == "D":
        return any(_has_opaque(a) or _has_opaque(b) for a, b in spec[1])
    return False


def _once_per_call(spec, used):
    if spec[0] == "M":
        if spec[1] in used:
            return ["L", spec[2]]
        used.add(spec[1])
    return spec


def _build_key(spec):
    """Key identity at plan-build time (python equality of the materialised key)."""
    k = spec[0]
    if k == "c":
        return ("c", spec[1])  # 1 == True == 1.0 collapse, as in a dict display
    if k == "n":
        return ("n", spec[1])
    if k == "T":
        return ("T", tuple(_build_key(x) for x in spec[1]))
    return (k, repr(spec))


def gen_world(rng, **kw):
    p_bare = kw.pop("p_bare", 0.08)
    g = Gen(rng, **kw)
    w = g.world()
    if rng.random() < p_bare:
        w["bare_build"] = True     # built at the bottom of a fresh thread's stack: complete symbolic tracebacks
        for n in w["nodes"]:
            if n.get("depth") == 0 and rng.random() < 0.8:
                n["depth"] = -1    # created by the building function itself, no helper in between
    return w


# --------------------------------------------------------------------------
def gen_cfg(rng, world, *, registry=False, retry_p=0.3, max_errors_choices=(0, 0, 1, 2, None)):
    n = len(world["nodes"])
    cfg = dict(
        max_workers=rng.choice([1, 1, 2, 2, 3, 4, n + 1, n + 3]),
        scheduler=rng.choice([None, "default", "default", "random", "random"]),
        max_errors=rng.choice(max_errors_choices),
        retry=None,
        stale_workers=None,
        output=True,
    )
    if rng.random() < 0.06:
        # the default: run(max_workers=None) sizes the pool from the (simulated) core count
        cfg["max_workers"] = None
        cfg["cpu_count"] = rng.choice([1, 1, 2, None])
    if rng.random() < retry_p:
        cfg["retry"] = rng.choice([1, 2, 3, ["custom", 2], ["custom", 3]])
    if registry and rng.random() < 0.5:
        cfg["stale_workers"] = rng.choice([1, 2, 3, 5])
    return cfg


def gen_sched(rng, est_steps=3000):
    r = rng.random()
    if r < 0.55:
        strategy = ["rw", rng.choice([0.002, 0.01, 0.03, 0.1, 0.3]), rng.choice([0.1, 0.3, 0.6])]
    elif r < 0.85:
        # (runs take a few hundred to a few thousand scheduling points: the window in which the priority change
        #  points are placed is varied accordingly, and half of the PCT runs place them per thread-pool phase)
        strategy = ["pct", rng.choice([1, 2, 3, 5]), rng.choice([est_steps // 10, est_steps // 4, est_steps // 2, est_steps,
                                                                 est_steps * 3])]
        if rng.random() < 0.5:
            strategy.append(1)
    else:
        strategy = ["rtb"]
    g = rng.random()
    gran = "opcode" if g < 0.5 else ("opcode+" if g < 0.65 else ("line" if g < 0.87 else "sync"))
    if strategy[0] == "rtb":
        gran = "sync"
    return dict(strategy=strategy, gran=gran, salt=rng.randrange(1 << 30))


def gen_call_faults(rng, world, p_fail=0.25,
                    excs=("E1", "E1", "E2", "B1", "SystemExit", "KeyboardInterrupt", "CallError", "NodeError", "F1", "F2", "Z1"),
                    flaky=False):
    calls = {}
    for n in world["nodes"]:
        if n["kind"] == "call" and rng.random() < p_fail:
            f = dict(exc=rng.choice(excs))
            if flaky and rng.random() < 0.6:
                f["until"] = rng.randrange(1, 4)
                f["exc"] = rng.choice(["E1", "E2"])
            calls[str(n["id"])] = f
    return calls


def child_rng(seed, *tags):
    return random.Random(repr((seed,) + tags))

"""Value objects shared by the workload and the reference model."""
import dataclasses
import enum
import hashlib


class Val:
    """Result of a workload call: unique per distinct computation, hashable,
    weak-referenceable, holds no reference to its inputs."""

    __slots__ = ("nid", "dig", "idx", "__weakref__")

    def __init__(self, nid, dig, idx=None):
        self.nid = nid
        self.dig = dig
        self.idx = idx

    def __eq__(self, other):
        return (
            type(other) is Val
            and self.nid == other.nid
            and self.dig == other.dig
            and self.idx == other.idx
        )

    def __hash__(self):
        return hash((self.nid, self.dig, self.idx))

    def __repr__(self):
        i = "" if self.idx is None else f"[{self.idx}]"
        return f"V{self.nid}:{self.dig}{i}"


class Norm:
    """What a normalising store returns on read: distinguishable from what
    was written."""

    __slots__ = ("v", "__weakref__")

    def __init__(self, v):
        self.v = v

    def __eq__(self, other):
        return type(other) is Norm and self.v == other.v

    def __hash__(self):
        return hash(("Norm", self.v))

    def __repr__(self):
        return f"N({self.v!r})"


class Opaque:
    __slots__ = ("label", "__weakref__")

    def __init__(self, label):
        self.label = label

    def __repr__(self):
        return f"O<{self.label}>"


class EqOpaque:
    """Opaque argument objects that all compare (and hash) equal although they are different objects: which one a
    call receives is observable only through identity and through the label."""

    __slots__ = ("label", "__weakref__")

    def __init__(self, label):
        self.label = label

    def __eq__(self, other):
        return type(other) is EqOpaque

    def __hash__(self):
        return 7

    def __repr__(self):
        return f"E<{self.label}>"


class MyList(list):
    pass


class MyTuple(tuple):
    pass


class MyDict(dict):
    pass


class MySet(set):
    pass


class Color(enum.Enum):
    RED = 1
    GREEN = 2
    BLUE = 3


class Shape(enum.Enum):
    SQUARE = "sq"
    ROUND = "rd"


class Token:
    """Hashable, equatable, unorderable scope value."""

    __slots__ = ("k",)

    def __init__(self, k):
        self.k = k

    def __eq__(self, other):
        return type(other) is Token and other.k == self.k

    def __hash__(self):
        return hash(("Token", self.k))

    def __repr__(self):
        return f"Token({self.k})"

    __str__ = __repr__


class E1(Exception):
    pass


class E2(KeyError):
    pass


class B1(BaseException):
    pass


class FalsyError(Exception):
    """An exception object that is falsy (an aggregate error with an empty list of sub-errors)."""

    def __len__(self):
        return 0


@dataclasses.dataclass(frozen=True)
class FrozenError(Exception):
    """An exception class that forbids attribute assignment (a frozen dataclass carrying structured error data):
    `exc.__traceback__ = ...` written in Python raises FrozenInstanceError; `with_traceback` does not."""

    msg: str = ""


class FalsyBase(BaseException):
    def __bool__(self):
        return False


EXC_TYPES = {
    "E1": E1,
    "E2": E2,
    "B1": B1,
    "F1": FalsyError,
    "F2": FalsyBase,
    "Z1": FrozenError,
    "SystemExit": SystemExit,
    "KeyboardInterrupt": KeyboardInterrupt,
    "OSError": OSError,
    "TimeoutError": TimeoutError,
    "FileNotFoundError": FileNotFoundError,
}


def canon(v):
    """Canonical string of a runtime value (types included)."""
    t = type(v)
    if t is Val:
        return repr(v)
    if t is Norm:
        return "N(" + canon(v.v) + ")"
    if t is list:
        return "L[" + ",".join(canon(x) for x in v) + "]"
    if t is tuple:
        return "T(" + ",".join(canon(x) for x in v) + ")"
    if t is set:
        return "S{" + ",".join(sorted(canon(x) for x in v)) + "}"
    if t is dict:
        return "D{" + ",".join(canon(k) + ":" + canon(x) for k, x in v.items()) + "}"
    if t is Opaque or t is EqOpaque:
        return repr(v)
    if t in (MyList, MyTuple, MyDict, MySet):
        return f"X<{t.__name__}:{len(v)}>"
    if t in (int, str, float, bool, type(None), bytes):
        return f"{t.__name__}:{v!r}"
    return f"?{t.__name__}"


def digest(*parts):
    h = hashlib.sha1("|".join(parts).encode()).hexdigest()
    return h[:10]


def call_digest(nid, args, kwargs, version=0):
    return digest(
        str(nid) if not version else f"{nid}@v{version}",
        ",".join(canon(a) for a in args),
        ",".join(f"{k}={canon(v)}" for k, v in kwargs),
    )


def typed_equal(a, b):
    """Structural equality including exact container types and dict order."""
    ta, tb = type(a), type(b)
    if ta is not tb:
        return False
    if ta in (list, tuple):
        return len(a) == len(b) and all(typed_equal(x, y) for x, y in zip(a, b))
    if ta is dict:
        if len(a) != len(b):
            return False
        return all(
            typed_equal(ka, kb) and typed_equal(va, vb)
            for (ka, va), (kb, vb) in zip(a.items(), b.items())
        )
    if ta is set:
        return canon(a) == canon(b)
    if ta is Norm:
        return typed_equal(a.v, b.v)
    if ta is Opaque or ta is EqOpaque:
        return a is b
    if ta in (MyList, MyTuple, MyDict, MySet):
        return a is b
    if ta is float:
        return repr(a) == repr(b)   # 0.0 and -0.0 are different values
    return a == b


def scope_value(tok):
    """JSON scope token -> python scope value."""
    if isinstance(tok, list):
        k = tok[0]
        if k == "enum":
            return Color[tok[1]]
        if k == "shape":
            return Shape[tok[1]]
        if k == "tok":
            return Token(tok[1])
        if k == "tup":
            return tuple(scope_value(x) for x in tok[1])
        if k == "float":
            return float(tok[1])
        if k == "bool":
            return bool(tok[1])
        if k == "fs":
            return frozenset(scope_value(x) for x in tok[1])
        if k == "dtn":
            import datetime as _dt

            return _dt.datetime(2024, 1, 1) + _dt.timedelta(seconds=tok[1])
        if k == "dta":
            import datetime as _dt

            return _dt.datetime(2024, 1, 1, tzinfo=_dt.timezone.utc) + _dt.timedelta(seconds=tok[1])
        if k == "cplx":
            return complex(tok[1], 1)
        raise ValueError(tok)
    return tok

"""The history machine: executes a description (world + operations) under the
simulator, one fresh 'process lifetime' per operation (DESIGN 4.3).  An engine
run is a history with a single `run` operation."""
import gc
import hashlib
import os
import random
import time as _time

from model import ref
from model.build import Runtime, build
from model.core import Val
from model.observer import RecordingObserver
from model.stores import RT, Disk
from simkit import sched, shims


class SinkError(OSError):
    """What a display's output sink raises once it is broken."""


class OpRecord:
    """What one operation did (kept in-process for the oracles)."""

    def __init__(self):
        self.op = None
        self.idx = None
        self.events = []
        self.result = None
        self.exc = None
        self.sim = None
        self.rt = None
        self.built = None
        self.observers = []
        self.physical = None
        self.snap_before = None
        self.snap_after = None
        self.disk_before = None
        self.disk_after = None
        self.mtimes_before = None
        self.fresh_instant = None
        self.aborted = False
        self.digest = None
        self.dry = None
        self.extra = {}


def mix_seed(*parts):
    h = hashlib.sha256(repr(parts).encode()).digest()
    return int.from_bytes(h[:8], "big")


# --------------------------------------------------------------------------
# structural snapshot (C13)
# --------------------------------------------------------------------------
def snapshot(built):
    plan = built.plan
    g = plan.graph
    nodes = []
    for n in g.nodes():
        nodes.append(
            (
                id(n),
                type(n).__name__,
                getattr(n, "scope", "<foreign node without scope>"),
                id(getattr(n, "fn", None)),
                id(getattr(n, "value", None)) if hasattr(n, "value") else None,
                id(getattr(n, "stack_frame", None)),
                repr(sorted(g.nodes[n].items())),
            )
        )
    edges = sorted((id(u), id(v), repr(k), repr(sorted(d.items()))) for u, v, k, d in g.edges(keys=True, data=True))
    edge_order = [(id(u), id(v), repr(k)) for u, v, k in g.edges(keys=True)]
    regsnap = None
    if built.registry is not None:
        regsnap = [
            (id(n), id(rv), id(rv.value_store), rv.is_source, id(rv.stack_frame))
            for n, rv in built.registry.mapping.items()
        ]
    return dict(
        nodes=nodes,
        node_order=[id(n) for n in g.nodes()],
        edges=edges,
        edge_order=edge_order,
        graph_attrs=repr(sorted(g.graph.items())),
        registry=regsnap,
        plan_scope=plan._scope,
    )


def snapshot_diff(a, b):
    out = []
    for k in a:
        if a[k] != b[k]:
            out.append(k)
    return out


# --------------------------------------------------------------------------
# physical plan capture
# --------------------------------------------------------------------------
def physical_key(node, built, counter):
    from uberjob.graph import Call, Literal
    from model.stores import SimStore

    i = built.ids.get(id(node))
    if type(node) is Call:
        fn = node.fn
        nid = getattr(fn, "_nid", None)
        if nid is not None and i is not None:
            return ("call", nid)
        q = getattr(fn, "__qualname__", "")
        if q.endswith(".read") or q.endswith(".write"):
            return (q.rsplit(".", 1)[1], None)
        if i is not None:
            return ("node", i)
        counter[0] += 1
        return ("aux", counter[0])
    if i is not None:
        return ("lit", i)
    counter[0] += 1
    v = node.value
    if isinstance(v, SimStore):
        return ("storelit", v.name, counter[0])
    return ("auxlit", counter[0])


def capture_physical(plan, out_node, built):
    g = plan.graph
    counter = [0]
    keys = {}
    for n in g.nodes():
        keys[n] = physical_key(n, built, counter)
    # resolve read/write targets through their store literal argument
    from model.stores import SimStore

    for n, k in list(keys.items()):
        if k[0] in ("read", "write"):
            name = None
            for p in g.predecessors(n):
                v = getattr(p, "value", None)
                if isinstance(v, SimStore):
                    name = v.name
            keys[n] = (k[0], name)
    preds = {keys[n]: sorted({keys[p] for p in g.predecessors(n)}, key=repr) for n in g.nodes()}
    edges = [(keys[u], keys[v], repr(k)) for u, v, k in g.edges(keys=True)]
    return dict(preds=preds, edges=edges, out=None if out_node is None else keys[out_node], nodes=list(preds),
                by_node={id(n): k for n, k in keys.items()}, keep_alive=list(keys))


# --------------------------------------------------------------------------
def _extra_call():
    sim = RT[0].sim
    sim.log("call-start", "extra", 1)
    sim.yield_("extra")
    sim.log("call-end", "extra", 1, "ok", "")


def _wrap_output(value):
    sim = RT[0].sim
    sim.log("call-start", "wrap", 1)
    sim.log("call-end", "wrap", 1, "ok", "")
    return value


def apply_transform(kind, plan, out_node):
    """A user transform_physical hook that really changes the physical plan."""
    from uberjob.graph import Call

    if kind in ("extra-call", "both"):
        roots = [n for n in plan.graph.nodes() if type(n) is Call and not list(plan.graph.predecessors(n))]
        x = plan.call(_extra_call)
        for n in roots:
            plan.add_dependency(x, n)
    if kind in ("wrap-output", "both") and out_node is not None:
        out_node = plan.call(_wrap_output, out_node)
    if kind == "relabel":
        # replace one root user call by an equivalent call under another function name (what instrumenting /
        # wrapping transformations do): the replaced call is no longer part of the run
        roots = [n for n in plan.graph.nodes() if type(n) is Call and getattr(n.fn, "_nid", None) is not None
                 and not list(plan.graph.predecessors(n))]
        if roots:
            old = roots[0]
            inner = old.fn

            def relabelled(*a, **k):
                return inner(*a, **k)

            new = plan.call(relabelled)
            new.scope = old.scope
            for _, succ, key in list(plan.graph.out_edges(old, keys=True)):
                plan.graph.add_edge(new, succ, key)
            plan.graph.remove_node(old)
            RELABELLED.append(inner._nid)
            if out_node is old:
                out_node = new
    return plan, out_node


RELABELLED = []


def make_retry(spec, sim):
    """retry spec: None | int | ['custom', n] (a user decorator with virtual
    back-off between attempts)."""
    if spec is None or isinstance(spec, int):
        return spec
    n = spec[1]

    def decorator(f):
        def wrapper(*args, **kwargs):
            for k in range(n):
                try:
                    return f(*args, **kwargs)
                except Exception:
                    if k == n - 1:
                        raise
                    sim.sleep(0.5, "retry-backoff")

        return wrapper

    return decorator


def retry_attempts(spec):
    if spec is None:
        return 1
    if isinstance(spec, int):
        return spec
    return spec[1]


class History:
    """Mutable state of one history execution."""

    def __init__(self, desc):
        self.desc = desc
        self.world = dict(desc["world"], _versions={})   # (shallow copy: code versions are history state)
        shims.reset_node_table()
        self.epoch = float(desc.get("epoch", _EPOCH))
        self.scratch = None
        if desc.get("file_stores"):
            import tempfile

            from model.stores import FileDisk

            self.scratch = tempfile.mkdtemp(prefix="verif-files-", dir="/dev/shm" if os.path.isdir("/dev/shm") else None)
            # (a minimised description may name stores whose nodes were dropped: only stores some node owns are files)
            owned = {n.get("store") for n in self.world["nodes"] if n["kind"] != "src"}
            self.disk = FileDisk(self.scratch, [s for s in desc["file_stores"] if s in owned],
                                 touch=desc.get("touch_stores", ()),
                                 siblings=bool(desc.get("file_siblings")), symlinks=desc.get("file_symlinks", ()),
                                 loops=desc.get("file_symlink_loops", ()))
        else:
            self.disk = Disk()
        self.disk.tickv = float(desc.get("tick", 1.0))
        self.records = []
        self.src_version = {}
        self.fresh = None  # instant
        self.h = hashlib.sha256()

    def cleanup(self):
        if self.scratch:
            import shutil

            shutil.rmtree(self.scratch, ignore_errors=True)
            self.scratch = None

    def init_sources(self):
        """Give every pure source store an initial value."""
        written_by = ref.derived_stores(self.world)
        for n in self.world["nodes"]:
            if n["kind"] == "src" and n["store"] not in written_by:
                self.update_source(n["store"])

    def pure_sources(self):
        written_by = ref.derived_stores(self.world)
        return [n["store"] for n in self.world["nodes"] if n["kind"] == "src" and n["store"] not in written_by]

    def update_source(self, name):
        v = self.src_version[name] = self.src_version.get(name, 0) + 1
        self.disk.now += self.disk.tickv
        self.disk.put(name, Val("src:" + name, str(v)), self.epoch + self.disk.now)

    def source_values(self):
        return {name: self.disk.value(name) for name in self.pure_sources() if self.disk.mtime(name) is not None}


_EPOCH = 1_700_000_000.0


def sched_epoch():
    return _EPOCH


def run_op(hist, op, idx, **kw):
    """Execute one `run` operation under the simulator (process TZ set for
    the whole operation when the configuration names one)."""
    tz = op.get("cfg", {}).get("tz")
    if not tz:
        return _run_op(hist, op, idx, **kw)
    old_tz = os.environ.get("TZ")
    os.environ["TZ"] = tz
    _time.tzset()
    try:
        return _run_op(hist, op, idx, **kw)
    finally:
        if old_tz is None:
            os.environ.pop("TZ", None)
        else:
            os.environ["TZ"] = old_tz
        _time.tzset()


def _run_op(hist, op, idx, *, tape=None, uberjob_kwargs=None, client_wrap=None, sim_hook=None, built=None,
            runner=None):
    import uberjob

    desc = hist.desc
    world = hist.world
    sc = op.get("sched") or desc["sched"]   # an operation may bring its own schedule parameters
    cfg = op.get("cfg", {})
    faults = op.get("faults", {})
    rec = OpRecord()
    rec.op = op
    rec.idx = idx
    seed = mix_seed(desc["seed"], "op", idx)
    if built is None and op.get("reuse") and getattr(hist, "last_built", None) is not None:
        built = hist.last_built    # the same process goes on: the very same Plan / Registry objects are run again
    if built is None:
        shims.install_node_hash(sc.get("salt", 0) + idx)
        if world.get("bare_build"):
            # the Plan is built at the bottom of a fresh thread's stack (a script's top level, a small helper): the
            # symbolic tracebacks of its nodes are complete, not cut at the depth limit
            from model.build import build_in_bare_thread

            built = build_in_bare_thread(world)
        else:
            built = build(world)
    hist.last_built = built
    strategy = ("tape", tape) if tape is not None else tuple(sc["strategy"])
    sim = sched.Sim(
        seed,
        strategy=strategy,
        max_steps=desc.get("max_steps", 400_000),
        epoch=hist.epoch,
    )
    sim.now = hist.disk.now
    sim.fail_start_at = faults.get("thread_start_fail")
    rt = Runtime(sim, world, hist.disk, built, faults=faults, cfg=cfg)
    rec.sim, rec.rt, rec.built = sim, rt, built
    rec.disk_before = hist.disk.snapshot()
    rec.mtimes_before = hist.disk.mtimes()
    rec.snap_before = snapshot(built)
    rec.extra["sources_at_start"] = hist.source_values()
    rec.extra["fresh"] = hist.fresh
    observers = rec.observers

    kwargs = dict(
        max_workers=cfg.get("max_workers", 2),
        scheduler=cfg.get("scheduler"),
        max_errors=cfg.get("max_errors", 0),
    )
    if cfg.get("retry") is not None:
        kwargs["retry"] = make_retry(cfg["retry"], sim)
    if built.registry is not None and not cfg.get("no_registry"):
        kwargs["registry"] = built.registry
        if cfg.get("stale_workers") is not None:
            kwargs["stale_check_max_workers"] = cfg["stale_workers"]
        if cfg.get("use_fresh", True) and hist.fresh is not None:
            from model.stores import render_instant

            rec.fresh_instant = hist.fresh
            kwargs["fresh_time"] = render_instant(hist.fresh, cfg.get("fresh_render"))
    if cfg.get("output", True) and built.output is not None:
        kwargs["output"] = built.output
    if cfg.get("dry_run"):
        kwargs["dry_run"] = True
    prog = cfg.get("progress", "rec")
    if prog == "rec":
        o = RecordingObserver("obs0", yield_in_callbacks=cfg.get("obs_yield", False))
        observers.append(o)
        kwargs["progress"] = uberjob.progress.Progress(lambda: o)
    elif prog in ("rec2", "rec2fail"):
        from uberjob.progress import Progress

        def mk(tag):
            def create():
                ob = RecordingObserver(tag, yield_in_callbacks=cfg.get("obs_yield", False),
                                       fail_enter=(prog == "rec2fail" and tag == cfg.get("fail_member", "obs1")))
                observers.append(ob)
                return ob

            return Progress(create)

        kwargs["progress"] = (mk("obs0"), mk("obs1"), mk("obs2"))
    elif prog == "bundled-fail":
        # the list form of `progress`: a bundled display (it owns an update thread) followed by a member that
        # cannot start or cannot finish
        from uberjob.progress import Progress, html_progress

        sink = rec.extra.setdefault("html_out", [])

        def create_failing():
            ob = RecordingObserver("obs1", fail_enter=cfg.get("fail_kind", "enter") == "enter",
                                   fail_exit=cfg.get("fail_kind") == "exit")
            observers.append(ob)
            return ob

        kwargs["progress"] = [html_progress(sink.append), Progress(create_failing)]
    elif prog == "bundled-sinkfail":
        # a bundled display whose output sink fails from its k-th page on (closed pipe, unwritable file), for good
        from uberjob.progress import html_progress

        sink_state = rec.extra.setdefault("sink", dict(n=0))

        def failing_sink(page):
            sink_state["n"] += 1
            if sink_state["n"] >= cfg.get("sink_fails_from", 1):
                raise SinkError(32, "Broken pipe (injected)")

        kwargs["progress"] = html_progress(failing_sink)
    elif prog == "bundled-ok":
        from uberjob.progress import html_progress

        kwargs["progress"] = html_progress(rec.extra.setdefault("html_out", []).append)
    elif prog == "mixed-sinkfail":
        # recording members on both sides of a bundled display whose sink keeps failing: the display's trouble is its
        # own - every other member still gets every notification, the run's outcome is the run's
        from uberjob.progress import Progress, html_progress

        sink_state = rec.extra.setdefault("sink", dict(n=0))

        def failing_sink2(page):
            sink_state["n"] += 1
            if sink_state["n"] >= cfg.get("sink_fails_from", 1):
                raise SinkError(32, "Broken pipe (injected)")

        def mk2(tag):
            def create():
                ob = RecordingObserver(tag, yield_in_callbacks=cfg.get("obs_yield", False))
                observers.append(ob)
                return ob

            return Progress(create)

        kwargs["progress"] = [mk2("obs0"), html_progress(failing_sink2), mk2("obs2")]
    elif prog is None:
        kwargs["progress"] = None
    else:
        kwargs["progress"] = prog  # a Progress object supplied by the check

    del RELABELLED[:]
    rec.extra["relabelled"] = RELABELLED

    def transform_physical(plan, out_node):
        if cfg.get("transform"):
            plan, out_node = apply_transform(cfg["transform"], plan, out_node)
        rec.physical = capture_physical(plan, out_node, built)
        rec.extra["physical_plan"] = (plan, out_node)
        return plan, out_node

    if cfg.get("capture_physical", True):
        kwargs["transform_physical"] = transform_physical
    if uberjob_kwargs:
        kwargs.update(uberjob_kwargs)

    def client():
        sim.log("run-enter")
        try:
            if runner is not None:
                out = runner(built, kwargs)
            else:
                out = uberjob.run(built.plan, **kwargs)
        except sched.SimAbort:
            raise
        except BaseException as e:
            sim.log("run-exit", type(e).__name__)
            raise
        sim.log("run-exit", "ok")
        return out

    if sim_hook is not None:
        sim_hook(sim, rt, built, kwargs)
    body = client if client_wrap is None else (lambda: client_wrap(client, sim, rt, built, kwargs))
    random.seed(mix_seed(seed, "random"))
    RT[0] = rt
    fs_plan = None
    if hist.scratch:
        from simkit import fs

        def fs_hook(phase, opname, path):
            if phase == "before" and not sim.aborted:
                sim.yield_(("fs", opname))
            rt.cut_point("fs-" + opname + "-" + phase, os.path.basename(path))

        fs_plan = fs.FaultPlan(None, buffer_size=cfg.get("buffer_size", 8192), hook=fs_hook,
                               stamp=lambda: hist.disk.tick(sim.time()), root=hist.scratch)
        rt.on_death = lambda: setattr(fs_plan, "dead", True)
        fs.install(fs_plan)
    shims.install(gran=sc.get("gran", "opcode"))
    if kwargs.get("max_workers") is None:
        shims.patch_cpu_count(cfg.get("cpu_count", 1))
    try:
        rec.result, rec.exc = sim.run(body)
    finally:
        shims.uninstall()
        if fs_plan is not None:
            from simkit import fs

            fs.uninstall()
        RT[0] = None
        hist.disk.frozen = False
    hist.disk.now = sim.now
    rec.events = sim.events
    rec.aborted = sim.abort_reason not in (None, "end")
    rec.snap_after = snapshot(built)
    rec.disk_after = hist.disk.snapshot()
    rec.digest = sim.digest()
    hist.h.update(rec.digest.encode())
    hist.records.append(rec)
    return rec


def apply_op(hist, op, idx, **kw):
    """Execute any history operation; returns its OpRecord (or None)."""
    k = op["op"]
    if k == "run":
        return run_op(hist, op, idx, **kw)
    if k == "update":
        hist.update_source(op["store"])
    elif k == "delete":
        _delete_store(hist, op["store"])
    elif k == "dryrun":
        # a dry run of the objects of this process (built now if the process is new); no oracle looks at it here - it
        # must simply be without consequence for everything that follows
        op2 = dict(op, op="run", cfg=dict(op.get("cfg") or {}, dry_run=True), reuse=True)
        op2.pop("faults", None)
        run_op(hist, op2, idx, **kw)
    elif k == "advance":
        hist.disk.now += op["seconds"]
    elif k == "bump":
        # the code of one stored call changes; as documented, the user deletes its stored value so that it
        # (and everything downstream) is rebuilt
        nid = op["node"]
        hist.world["_versions"][nid] = hist.world["_versions"].get(nid, 0) + 1
        st = [n.get("store") for n in hist.world["nodes"] if n["id"] == nid][0]
        if st:
            _delete_store(hist, st)
    elif k == "retime":
        # modified times moved to given instants (as os.utime / touch would do), contents unchanged
        for name, off in op["offsets"].items():
            if name in hist.disk.data:
                v, _ = hist.disk.data[name]
                hist.disk.data[name] = (v, hist.epoch + off)
        if hist.disk.data:
            hist.disk.last = max(hist.disk.last, max(t for _, t in hist.disk.data.values()))
        hist.disk.now = max(hist.disk.now, hist.disk.last - hist.epoch + hist.disk.tickv)
    elif k == "future":
        # a stored value whose modified time is ahead of every clock (skewed writer, touched file): times are instants,
        # nothing the property says depends on "now"
        name = op["store"]
        if name in hist.disk.data:
            v, _ = hist.disk.data[name]
            t = round(max(hist.disk.last, hist.epoch + hist.disk.now) + 10 * 365 * 86400.0, 6)
            hist.disk.data[name] = (v, t)
            hist.disk.last = t
            sd = hist.world["stores"].get(name, {})
            if sd.get("feeds") and sd["feeds"] in hist.disk.data:
                # what this store's write fed was written with it: the same instant for an alias, just after otherwise
                t2 = t if sd.get("alias") else round(t + hist.disk.tickv, 6)
                hist.disk.data[sd["feeds"]] = (hist.disk.data[sd["feeds"]][0], t2)
                hist.disk.last = max(hist.disk.last, t2)
    elif k == "epoch0":
        # every stored value and source is dated exactly 1970-01-01T00:00:00Z (a tree unpacked from an archive that
        # zeroes timestamps): all modified times are equal, so nothing is older than anything - and 0.0 is a time
        if hist.fresh is None:
            hist.disk.set_all_mtimes(0.0)
    elif k == "fresh_at":
        # fresh_time := exactly the modified time of one stored value (a tie: that value is not "older than" fresh_time)
        t = hist.disk.mtime(op["store"])
        if t is not None:
            hist.fresh = t
    elif k == "fresh":
        # fresh_time := an instant later than every existing modified time and
        # earlier than every later write (pairwise distinct instants)
        tk = hist.disk.tickv
        hist.disk.now += tk
        hist.fresh = round(max(hist.epoch + hist.disk.now, hist.disk.last) + 0.5 * tk, 6)
        hist.disk.last = round(hist.fresh + 0.25 * tk, 6)
    else:
        raise ValueError(k)
    hist.h.update(repr(("op", k, sorted(hist.disk.mtimes().items()))).encode())
    return None


def _delete_store(hist, name):
    hist.disk.delete(name)
    sd = hist.world["stores"].get(name, {})
    if sd.get("feeds") and sd.get("alias"):
        hist.disk.delete(sd["feeds"])   # one store seen through two registry entries: its content goes as a whole


def execute(desc, *, stop_on=None):
    """Run the whole description; returns the History."""
    hist = History(desc)
    hist.init_sources()
    for idx, op in enumerate(desc["ops"]):
        if op["op"] == "run" and op.get("cfg", {}).get("fresh") == "current":
            pass
        apply_op(hist, op, idx)
    return hist

"""CLI: vcheck.py <property> --tier quick|thorough [--replay FILE]"""
import argparse
import json
import os
import sys
import time

ROOT = os.path.dirname(os.path.abspath(__file__))
sys.path.insert(0, ROOT)

import runner  # noqa: E402
from checks import registry  # noqa: E402


def main():
    ap = argparse.ArgumentParser()
    ap.add_argument("prop")
    ap.add_argument("--tier", default=os.environ.get("VERIF_TIER", "quick"))
    ap.add_argument("--replay")
    ap.add_argument("--cases", type=int)
    ap.add_argument("--no-shrink", action="store_true")
    ap.add_argument("--jobs", type=int)
    ap.add_argument("--update", action="store_true")
    args = ap.parse_args()
    base_seed = int(os.environ.get("VERIF_SEED", "0"))
    jobs = int(os.environ.get("VERIF_JOBS", "16"))
    from simkit import shims

    shims.import_uberjob()
    if args.jobs:
        jobs = args.jobs
    if args.prop == "_digests":
        import selftest

        print(json.dumps(selftest.digests(sorted(selftest.N), base_seed, jobs)))
        sys.exit(0)
    if args.prop == "selftest-determinism":
        from selftest import determinism

        sys.exit(determinism(base_seed, jobs))
    if args.prop == "selftest-prims":
        from selftest import prims_fidelity

        sys.exit(prims_fidelity(base_seed))
    if args.prop == "selftest-reach":
        from selftest import reach

        sys.exit(reach(update=args.update))
    spec = registry.CHECKS[args.prop]
    if args.replay:
        sys.exit(registry.replay(args.prop, spec, args.replay))
    tier = args.tier
    n_cases = args.cases or spec["cases"][tier]
    if args.cases:
        os.environ["VERIF_ADHOC"] = "1"
    budget = float(os.environ.get("VERIF_BUDGET_S", spec["budget"][tier]))
    out = runner.run_batch(spec["module"], args.prop, tier, n_cases=n_cases, budget_s=budget, jobs=jobs,
                           base_seed=base_seed, chunk=spec.get("chunk", 8),
                           recheck_every=spec.get("recheck_every", 50))
    sys.exit(registry.conclude(args.prop, spec, tier, base_seed, out, shrink=not args.no_shrink))


if __name__ == "__main__":
    main()
